"""C11 - linear spectra match the Fourier integral and symmetry relations.

Decided statically: objects transformed to the eigenbasis inside the
aggregate calculation are transformed back with the inverse matrix on every
path to the return (A); the half-sided transform lives on the grid it is
returned on: hfft is given n = 2*Nt, the reversal of the fftshift-ordered
even-length array is compensated by a one-sample roll, the central cut is
[Nt//2 : Nt + Nt//2] and the axis is the matching half of the 2*Nt-point
frequency axis (B); dipoles enter through scalar products only (C); the
frequency prefactor is applied iff raw is false (D).  Not decided: equality
with the Fourier integral beyond grid agreement, sum rules.
"""
import ast

from ..loader import AnalysisError, norm, walk_no_nested, call_name, parents_map
from .. import ta
from ..ta import Expr, Array, normal, show_normal
from ..ta_front import Interp, Obj, Index

AC = "quantarhei.spectroscopy.abscalculator.AbsSpectrumCalculator."


def rule_P(run, prog):
    """All functions of quantarhei.spectroscopy: `v = self.X.attr` ... `self.X.attr = <something else>` ... `self.X.attr = v`."""
    rid = "C11-P"
    n = 0
    for m in sorted(prog.package_modules("quantarhei.spectroscopy")) if hasattr(prog, "package_modules") else []:
        prog.module(m)
    for f in list(prog.all_functions()):
        if not f.module.name.startswith("quantarhei.spectroscopy.") or not isinstance(f.node, ast.FunctionDef):
            continue
        stmts = [x for x in walk_no_nested(f.node) if isinstance(x, ast.Assign) and len(x.targets) == 1]
        saves = [x for x in stmts if isinstance(x.targets[0], ast.Name) and isinstance(x.value, ast.Attribute)
                 and isinstance(x.value.value, ast.Attribute) and norm(x.value.value).startswith("self.")]
        for sv in saves:
            held, local = norm(sv.value), sv.targets[0].id
            over = [x for x in stmts if norm(x.targets[0]) == held and x.lineno > sv.lineno
                    and not (isinstance(x.value, ast.Name) and x.value.id == local)]
            if not over:
                continue
            # the local must still hold the saved value (not re-bound in between by another save of the same kind)
            nxt = [x.lineno for x in saves if x is not sv and x.targets[0].id == local and x.lineno > sv.lineno]
            horizon = min(nxt) if nxt else 10 ** 9
            over = [x for x in over if x.lineno < horizon]
            if not over:
                continue
            rest = [x for x in stmts if norm(x.targets[0]) == held and isinstance(x.value, ast.Name) and x.value.id == local
                    and over[0].lineno < x.lineno < horizon]
            n += 1
            prog.consulted.add(f.relpath)
            if not rest:
                run.obligation(rid, f.short, False, key="restored:" + held,
                               message="%s saves %s, overwrites it (line %d) and never writes the saved value back: the object "
                                       "belongs to the caller and is used by the next calculation" % (f.short, held, over[0].lineno),
                               loc=f.loc(over[0]), sample={"function": f.short, "attribute": held})
                continue
            last = rest[-1]
            esc = [x for x in walk_no_nested(f.node) if isinstance(x, ast.Return) and over[0].lineno < x.lineno < last.lineno]
            run.obligation(rid, f.short, not esc, key="restored:" + held,
                           message="%s overwrites %s at line %d and restores it at line %d, but returns in between (line %d): on that "
                                   "way out the caller's object keeps the temporary value"
                                   % (f.short, held, over[0].lineno, last.lineno, esc[0].lineno if esc else 0),
                           loc=f.loc(esc[0]) if esc else f.loc(over[0]), sample={"function": f.short, "attribute": held})
    if n < 3:
        raise AnalysisError("C11-P: only %d save/overwrite/restore sites found in quantarhei.spectroscopy (3 confirmed)" % n)


def check(run, prog, tier):
    run.explanation = (
        "Pairing rule on the forward/backward transformations of _calculate_aggregate, shape and "
        "offset rules for the half-sided Fourier transform (length argument of hfft, reversal "
        "compensated by a one-sample roll for an fftshift-ordered even-length array, central cut, "
        "axis construction from the same grid), index-algebra check that dipole strengths are scalar "
        "products, and placement of the frequency prefactor. The index arithmetic behind the roll is "
        "stated in the rule; numerical equality with the Fourier integral is not decided.")
    run.trusted_base = ["numpy.fft.hfft(x, n) returns n real points; without n it returns 2*(len(x)-1)",
                        "for an fftshift-ordered array of even length M, flipud maps frequency index k to "
                        "-k-1; roll by one restores -k (zero frequency fixed)"]
    run.rule("C11-H", "the dipole operator and the calculator compute line strengths from the current representation of the dipoles (no strengths kept across a transformation)", minimum=2)
    from . import memorule
    memorule.check(run, prog, "C11-H", ['quantarhei.qm.hilbertspace.dmoment.TransitionDipoleMoment', 'quantarhei.spectroscopy.abscalculator.AbsSpectrumCalculator'],
                   "the exciton lines then carry |d|^2 of another representation")
    run.rule("C11-I", "exciton line widths weight the site widths with the coefficients of the sites in that exciton (rule of "
                      "C12-I): otherwise the spectrum depends on how the molecules are numbered", minimum=2)
    from . import c12
    c12.rule_I(run, prog, "C11-I", "exciton a then gets the participation numbers of site a, and the spectrum changes when the "
                                   "molecules are relabelled")
    run.rule("C11-J", "all exciton lines are treated alike: the later lines take their lifetime term under the same conditions "
                      "as the first; the weight of a molecule in an exciton is read from the rows of the states in which that "
                      "molecule is excited", minimum=2)
    rule_J(run, prog)
    run.rule("C11-K", "resonance couplings are computed in floating point whatever number type the positions and dipoles were "
                      "given in: no in-place division or scaling of a value that has the element type of the inputs", minimum=3)
    rule_K(run, prog)
    run.rule("C11-L", "every line sits at its transition energy: the energy of an aggregate state, from which the Hamiltonian of the "
                      "calculation is built, is the sum over all molecules of the energy of the level each is in - the ground-state "
                      "energies of the molecules that are not excited included (finite evaluation, shared with C03-G)", minimum=4)
    from . import c03
    from ..report import RuleProxy
    c03.rule_G(RuleProxy(run, "C11-L", keep=lambda construct, key: construct == "ElectronicState.energy"), prog)
    run.rule("C11-M", "the line-shape function g_a(t) is built from the bath functions assigned to the molecules, on the whole time "
                      "axis: the matrix of correlation functions keeps every function it is given from the first to the last point "
                      "(no store of a leading part, no cut at an index computed from times)", minimum=1)
    rule_M(run, prog)
    run.rule("C11-N", "the spectrum of a molecule is the sum over all its transitions from the ground state: where the monomer "
                      "calculation reads an energy, a dipole, a lifetime or an environment of an excited level, the level is a loop "
                      "variable over the levels of the molecule, not the literal 1", minimum=3)
    rule_N(run, prog)
    run.rule("C11-A", "eigenbasis transformations in the aggregate calculation are undone", minimum=4)
    run.rule("C11-B", "half-sided transform is laid on the returned grid", minimum=10)
    run.rule("C11-C", "dipoles enter through scalar products only", minimum=3)
    run.rule("C11-D", "frequency prefactor applied iff raw is false", minimum=3)
    rule_A(run, prog)
    rule_B(run, prog)
    rule_C(run, prog)
    rule_D(run, prog)
    run.rule("C11-F", "the frequency axis is shifted by the rotating-frame frequency of the propagated signal "
                      "(excited-block minus ground-block RWA energy)", minimum=1)
    run.rule("C11-E", "the Hamiltonian and dipole operators handed to the calculator do not share storage with "
                      "arrays the aggregate rewrites in place", minimum=2)
    rule_E(run, prog)
    rule_F(run, prog)
    run.rule("C11-P", "'evaluated at the points of the returned frequency axis': the calculators derive the frequency axis from the "
                      "user's time axis, and some switch its type for a moment to do so.  A value of an attribute of a held object "
                      "that is saved in a local, overwritten and written back is written back on every way out: no return between "
                      "the overwrite and the restore, and the restore is there (a time axis left 'complete' gives the next "
                      "calculator N frequency points for 2N spectrum values)", minimum=3)
    rule_P(run, prog)
    run.rule("C11-G", "the calculator reads the frequency axis (and the rotating-wave energies) under internal units: "
                      "the line positions, which are internal, are laid on it", minimum=9)
    from . import intunits
    intunits.check_classes(run, prog, "C11-G", ["quantarhei.spectroscopy.abscalculator.AbsSpectrumCalculator",
                                                "quantarhei.spectroscopy.mockabscalculator.MockAbsSpectrumCalculator"], 9,
                           "transition energies and the frame frequency are internal: the lines no longer sit at their "
                           "transition energies on the returned axis")


def rule_F(run, prog):
    """With a rotating-wave Hamiltonian the optical coherences are propagated in a frame rotating at
    HR[excited block] - HR[ground block].  bootstrap() shifts the returned frequency axis by self.rwa;
    lines computed from propagated dynamics sit at their transition energies only if self.rwa is that
    same difference (the ground block's RWA energy is zero only when its average energy is)."""
    import copy
    rid = "C11-F"
    f = prog.func("quantarhei.spectroscopy.abscalculator.AbsSpectrumCalculator.bootstrap")
    branch = [n for n in ast.walk(f.node) if isinstance(n, ast.If) and norm(n.test).endswith(".has_rwa")]
    if len(branch) != 1:
        raise AnalysisError("bootstrap: branch on has_rwa not found")
    body = branch[0].body
    hname = norm(branch[0].test)[:-len(".has_rwa")]
    binds = {}
    for s_ in body:
        if isinstance(s_, ast.Assign) and isinstance(s_.targets[0], ast.Name):
            binds.setdefault(s_.targets[0].id, []).append(s_.value)
    asg = [s_ for s_ in body if isinstance(s_, ast.Assign) and norm(s_.targets[0]) == "self.rwa"]
    if len(asg) != 1:
        raise AnalysisError("bootstrap: assignment of self.rwa under has_rwa not found")

    class Inline(ast.NodeTransformer):
        def visit_Name(self, node):
            if node.id in binds and len(binds[node.id]) == 1:
                return self.visit(copy.deepcopy(binds[node.id][0]))
            return node
    val = norm(Inline().visit(copy.deepcopy(asg[0].value)))
    sk = "%s.get_RWA_skeleton()" % hname
    want = "self.convert_2_internal_u(%s[%s.rwa_indices[1]] - %s[%s.rwa_indices[0]])" % (sk, hname, sk, hname)
    run.obligation(rid, "AbsSpectrumCalculator.bootstrap", val == want, key="frame-frequency",
                   message="under has_rwa the axis shift is %s; it must be the difference of the RWA skeleton energies of "
                           "the excited and the ground block: %s" % (val, want), loc=f.loc(asg[0]),
                   sample={"value": val})


def rule_E(run, prog):
    """The calculator transforms the operators it gets from the aggregate (get_Hamiltonian /
    get_TransitionDipoleMoment) exactly once into the eigenbasis.  That is correct only if these
    objects are in the site representation they were built in; Aggregate.diagonalize() rewrites the
    aggregate's working arrays element-wise, so an operator built on top of such an array (no copy)
    silently changes representation and the line strengths become |(S^T S^T d)|^2."""
    from ..effects import shared_operator_storage
    rid = "C11-E"
    cls = prog.cls("quantarhei.builders.aggregate_base.AggregateBase")
    pairs = shared_operator_storage(prog, cls)
    # operators built in _build without sharing are instances too: count the constructions examined
    b = prog.func("quantarhei.builders.aggregate_base.AggregateBase._build")
    built = [n for n in ast.walk(b.node) if isinstance(n, ast.Assign) and isinstance(n.value, ast.Call)
             and call_name(n.value) in ("Hamiltonian", "TransitionDipoleMoment")]
    if len(built) < 2:
        raise AnalysisError("_build: construction of the Hamiltonian and dipole operators not found")
    shared = {id(n): (obj, arr, wr) for f, n, obj, arr, wr in pairs}
    for n in built:
        obj, arr, wr = shared.get(id(n), (norm(n.targets[0]), None, []))
        ok = not wr
        run.obligation(rid, "AggregateBase._build:" + call_name(n.value), ok, key="owns-storage",
                       message="%s is built on the array kept as self.%s, which %s rewrites in place (%s): the "
                               "operator changes representation behind the calculator's back"
                               % (norm(n.targets[0]), arr, sorted({w[0].short for w in wr}),
                                  norm(wr[0][1])[:60] if wr else ""),
                       loc=b.loc(n), sample={"operator": call_name(n.value), "shares_array": arr,
                                             "in_place_writers": len(wr)})


def rule_A(run, prog):
    rid = "C11-A"
    f = prog.func(AC + "_calculate_aggregate")
    body = f.node.body
    fwd, back = {}, {}
    ss = None
    s1 = None
    nodes = sorted(walk_no_nested(f.node), key=lambda n: getattr(n, "lineno", 0))
    for n in nodes:
        if isinstance(n, ast.Assign) and isinstance(n.value, ast.Call) and call_name(n.value) == "diagonalize":
            ss = norm(n.targets[0])
            fwd[norm(n.value.func.value)] = n
    for n in nodes:
        if isinstance(n, ast.Assign) and isinstance(n.value, ast.Call) and (prog.external_name(f, n.value.func) or "").endswith("linalg.inv"):
            if ss is not None and norm(n.value.args[0]) == ss:
                s1 = norm(n.targets[0])
    if ss is None:
        raise AnalysisError("_calculate_aggregate: diagonalisation not found")
    pm = parents_map(f.node)

    def cond(n):
        p = pm.get(n)
        out = []
        while p is not None and p is not f.node:
            if isinstance(p, ast.If):
                out.append(norm(p.test))
            p = pm.get(p)
        return tuple(out)
    for n in walk_no_nested(f.node):
        if isinstance(n, ast.Call) and call_name(n) == "transform" and isinstance(n.func, ast.Attribute) and n.args:
            obj = norm(n.func.value)
            if norm(n.args[0]) == ss:
                fwd[obj] = n
            elif s1 is not None and norm(n.args[0]) == s1:
                back[obj] = n
    run.obligation(rid, "AbsSpectrumCalculator._calculate_aggregate", s1 is not None, key="inverse",
                   message="the back transformation must use the inverse of the diagonalising matrix", loc=f.loc(),
                   sample={"forward": sorted(fwd), "backward": sorted(back)})
    for obj in sorted(set(fwd) | set(back)):
        ok = False
        if obj in fwd and obj in back:
            cf, cb = cond(fwd[obj]), cond(back[obj])
            ok = cf == cb and fwd[obj].lineno < back[obj].lineno
        run.obligation(rid, "AbsSpectrumCalculator._calculate_aggregate", ok, key="paired:" + obj,
                       message="%s is transformed into the eigenbasis but not transformed back under the same "
                               "condition before the spectrum is returned (the caller's object stays in the "
                               "eigenbasis)" % obj, loc=f.loc(fwd.get(obj) or back.get(obj)),
                       sample={"object": obj, "forward": obj in fwd, "backward": obj in back})
    # no return between the first forward and the last backward transformation
    if fwd and back:
        lo = min(n.lineno for n in fwd.values())
        hi = max(n.lineno for n in back.values())
        rets = [n for n in walk_no_nested(f.node) if isinstance(n, ast.Return) and lo < n.lineno < hi]
        run.obligation(rid, "AbsSpectrumCalculator._calculate_aggregate", not rets, key="no-early-return",
                       message="a return between the forward and the backward transformation leaves the system "
                               "in the eigenbasis", loc=f.loc())


def _transform_site(run, prog, f, rid):
    """the statement group: ft = [dd*]hfft(at, n=2*Nt)*step ; fftshift ; roll(flipud, 1) ; cut"""
    st = [n for n in walk_no_nested(f.node) if isinstance(n, (ast.Assign, ast.Return))]
    hf = [n for n in walk_no_nested(f.node) if isinstance(n, ast.Call) and call_name(n) == "hfft"]
    if len(hf) != 1:
        raise AnalysisError("%s: expected one hfft call" % f.short)
    h = hf[0]
    # Nt is the length of the time axis of the transformed signal
    ntdef = sorted([n for n in walk_no_nested(f.node) if isinstance(n, ast.Assign) and norm(n.targets[0]) == "Nt"
                    and n.lineno < h.lineno], key=lambda n: n.lineno)
    nt_ok = bool(ntdef) and norm(ntdef[-1].value) in ("ta.length", "time.length")
    nkw = [k for k in h.keywords if k.arg == "n"]
    ok = len(nkw) == 1 and norm(nkw[0].value) in ("2 * Nt", "Nt * 2") and nt_ok
    run.obligation(rid, f.short, ok, key="hfft-length",
                   message="hfft without n = 2*Nt returns 2*(Nt-1) points while the frequency axis has 2*Nt: the "
                           "line is laid on a grid with a different step", loc=f.loc(h),
                   sample={"site": f.short, "call": norm(h)})
    texts = [norm(n) for n in st]
    ok = "ft = numpy.fft.fftshift(ft)" in texts
    run.obligation(rid, f.short, ok, key="fftshift", message="the transform must be brought to centred order", loc=f.loc(h))
    flips = [n for n in walk_no_nested(f.node) if isinstance(n, ast.Call) and call_name(n) in ("flipud", "flip")]
    pm = parents_map(f.node)
    ok = len(flips) == 1
    if ok:
        par = pm.get(flips[0])
        ok = isinstance(par, ast.Call) and call_name(par) == "roll" and len(par.args) == 2 and \
            isinstance(par.args[1], ast.Constant) and par.args[1].value == 1 and par.args[0] is flips[0]
    run.obligation(rid, f.short, ok, key="reversal-offset",
                   message="reversing an fftshift-ordered even-length array maps frequency k to -k-1; it must be "
                           "compensated by roll(..., 1), otherwise every line is displaced by one grid point",
                   loc=f.loc(flips[0]) if flips else f.loc(), sample={"site": f.short})
    # order: hfft -> fftshift -> reversal -> cut
    cut = [n for n in walk_no_nested(f.node) if isinstance(n, ast.Subscript) and norm(n.value) == "ft"
           and isinstance(n.slice, ast.Slice)]
    ok = len(cut) == 1 and norm(cut[0].slice.lower) == "Nt // 2" and norm(cut[0].slice.upper) in ("Nt + Nt // 2",)
    run.obligation(rid, f.short, ok, key="central-cut",
                   message="the returned part must be the central Nt points [Nt//2 : Nt + Nt//2] of the 2*Nt-point "
                           "transform", loc=f.loc(cut[0]) if cut else f.loc(), sample={"site": f.short,
                                                                                     "cut": norm(cut[0]) if cut else None})
    if flips and cut:
        lines = [h.lineno, flips[0].lineno, cut[0].lineno]
        sh = [n.lineno for n in st if norm(n) == "ft = numpy.fft.fftshift(ft)"]
        ok = bool(sh) and h.lineno <= sh[0] < flips[0].lineno < cut[0].lineno
        run.obligation(rid, f.short, ok, key="order",
                       message="transform, centring, reversal and cut must follow in this order", loc=f.loc(h))
    # the step factor
    par = pm.get(h)
    txt = norm(par) if isinstance(par, ast.BinOp) else ""
    gp = pm.get(par) if isinstance(par, ast.BinOp) else None
    full = norm(gp) if isinstance(gp, ast.BinOp) else txt
    ok = full.endswith("* ta.step") or full.endswith("* time.step")
    run.obligation(rid, f.short, ok, key="step-factor",
                   message="the discrete transform must be multiplied by the time step", loc=f.loc(h),
                   sample={"expression": full})


def _axis_site(run, prog, f, rid):
    st = [norm(n) for n in walk_no_nested(f.node) if isinstance(n, ast.Assign)]
    ok = "Nt = len(self.frequencyAxis.data) // 2" in st and \
        "do = self.frequencyAxis.data[1] - self.frequencyAxis.data[0]" in st and \
        "st = self.frequencyAxis.data[Nt // 2]" in st and "axis = FrequencyAxis(st, Nt, do)" in st
    run.obligation(rid, f.short, ok, key="axis",
                   message="the returned axis must be the central half (start at index Nt//2, Nt points, same step) "
                           "of the 2*Nt-point frequency axis of the time axis", loc=f.loc(),
                   sample={"site": f.short})


def rule_B(run, prog):
    rid = "C11-B"
    for name in ("one_transition_spectrum", "_calculate_abs_from_dynamics"):
        f = prog.func(AC + name)
        prog.consulted.add(f.relpath)
        _transform_site(run, prog, f, rid)
    for name in ("_calculate_monomer", "_calculate_abs_from_dynamics", "_calculate_aggregate"):
        _axis_site(run, prog, prog.func(AC + name), rid)
    # the frequency axis of the calculator is the conjugate (2N-point) axis shifted by the RWA frequency
    b = prog.func(AC + "bootstrap")
    st = [norm(n) for n in ast.walk(b.node) if isinstance(n, ast.stmt)]
    ok = "self.frequencyAxis = self.TimeAxis.get_FrequencyAxis()" in st and "self.frequencyAxis.data += self.rwa" in st
    run.obligation(rid, "AbsSpectrumCalculator.bootstrap", ok, key="frequency-axis",
                   message="the calculator's frequency axis must be the conjugate axis of its time axis, shifted by "
                           "the rotating-wave frequency", loc=b.loc())
    # transition frequency entering the line: omega - rwa
    for name, expr in (("_calculate_monomer", "om - self.rwa"),):
        f = prog.func(AC + name)
        ok = any(expr in norm(n) for n in ast.walk(f.node) if isinstance(n, ast.Dict))
        run.obligation(rid, f.short, ok, key="rwa-shift",
                       message="the transition frequency must be taken relative to the rotating-wave frequency",
                       loc=f.loc())
    f = prog.func(AC + "_calculate_aggregate")
    oms = [norm(n.value) for n in ast.walk(f.node) if isinstance(n, ast.Assign) and norm(n.targets[0]) == "tr['om']"]
    ok = len(oms) == 2 and all(o.endswith("- HH.data[0, 0] - self.rwa") for o in oms)
    run.obligation(rid, f.short, ok, key="rwa-shift",
                   message="exciton transition frequencies must be E_i - E_0 - rwa", loc=f.loc(), sample={"om": oms})


def rule_C(run, prog):
    rid = "C11-C"
    ds = prog.func("quantarhei.qm.hilbertspace.dmoment.TransitionDipoleMoment.dipole_strength")
    data = Array.opaque("D", 3)
    selfo = Obj("self", attrs={"data": data})

    def oracle(it, test, env):
        if norm(test) == "to_state is None":
            return False
        return None
    it = Interp(prog, lenient=False, branch_oracle=oracle)
    res = it.call_function(ds, [Index("#f"), Index("#t")], self_obj=selfo)
    want = (Expr.factor("D", ("#f", "#t", "k")) * Expr.factor("D", ("#f", "#t", "k"))).sum_over("k")
    ok = isinstance(res, Expr) and not normal(res - want)
    run.obligation(rid, "TransitionDipoleMoment.dipole_strength", ok, key="scalar-product",
                   message="dipole strength must be the scalar product d.d of the transition dipole with itself",
                   loc=ds.loc(), sample={"value": show_normal(normal(res)) if isinstance(res, Expr) else repr(res)})
    f = prog.func(AC + "_calculate_monomer")
    st = [norm(n) for n in ast.walk(f.node) if isinstance(n, ast.Assign)]
    # the strength handed to one_transition_spectrum is v.v of one row dmoments[0, k, :] (any level k: literal or loop variable)
    rows = {norm(n.targets[0]) for n in ast.walk(f.node) if isinstance(n, ast.Assign) and isinstance(n.value, ast.Subscript)
            and norm(n.value.value) == "self.system.dmoments" and isinstance(n.value.slice, ast.Tuple) and len(n.value.slice.elts) == 3
            and norm(n.value.slice.elts[0]) == "0" and isinstance(n.value.slice.elts[2], ast.Slice)}
    ok = any(("dd = numpy.dot(%s, %s)" % (r, r)) in st for r in rows)
    run.obligation(rid, f.short, ok, key="scalar-product",
                   message="monomer line strength must be d.d of the transition dipole of the line", loc=f.loc())
    f = prog.func(AC + "_calculate_aggregate")
    dds = [norm(n.value) for n in ast.walk(f.node) if isinstance(n, ast.Assign) and norm(n.targets[0]) == "tr['dd']"]
    ok = dds == ["DD.dipole_strength(0, 1)", "DD.dipole_strength(0, ii)"] or sorted(dds) == sorted(
        ["DD.dipole_strength(0, 1)", "DD.dipole_strength(0, ii)"])
    run.obligation(rid, f.short, ok, key="dipole-strengths",
                   message="exciton line strengths must be the dipole strengths of the 0->i transitions of the "
                           "transformed dipole operator", loc=f.loc(), sample={"dd": dds})
    g = prog.func(AC + "one_transition_spectrum")
    ok = any("dd * numpy.fft.hfft(" in norm(n) for n in ast.walk(g.node) if isinstance(n, ast.Assign))
    run.obligation(rid, g.short, ok, key="linear-in-strength",
                   message="the line must be multiplied by the dipole strength (linear)", loc=g.loc())


def rule_D(run, prog):
    rid = "C11-D"
    for name in ("_calculate_monomer", "_calculate_abs_from_dynamics", "_calculate_aggregate"):
        f = prog.func(AC + name)
        ifs = [n for n in walk_no_nested(f.node) if isinstance(n, ast.If) and norm(n.test) == "not raw"]
        ok = len(ifs) == 1 and [norm(s) for s in ifs[0].body] == ["data = axis.data * data"] and not ifs[0].orelse
        rets = [n for n in walk_no_nested(f.node) if isinstance(n, ast.Assign) and norm(n.targets[0]) == "spect"]
        ok = ok and len(rets) == 1 and norm(rets[0].value) == "AbsSpectrum(axis=axis, data=data)" and \
            ifs[0].lineno < rets[0].lineno
        run.obligation(rid, f.short, ok, key="prefactor",
                       message="the frequency prefactor must multiply the data exactly when raw is false, before "
                               "the spectrum object is created on the same axis", loc=f.loc(), sample={"site": f.short})


def rule_K(run, prog):
    """'... line positions correspond to the Hamiltonian of the specified geometry; the spectrum is unchanged by a common
    rotation of all dipoles and positions': the couplings come from builders/interactions.py, fed with the positions and
    dipoles as the user typed them (Molecule.position keeps the element type: [6, 1, 0] is an integer array; a rotated
    copy is floating point).  `R = r1 - r2` has the inputs' type, and `R /= |R|` in place cannot be stored in an integer
    array: numpy raises, set_coupling_by_dipole_dipole and calculate_resonance_coupling turn every exception into a zero
    coupling, and the aggregate on a whole-number lattice silently loses its couplings while the rotated one keeps them.
    In the coupling functions an in-place true division (or in-place scaling by a float) must not act on a value that
    inherits the element type of the parameters."""
    from .. import arrays
    rid = "C11-K"
    n = 0
    funcs = [f for f in prog.all_functions() if f.qualname.startswith("quantarhei.builders.interactions.")]
    ab = prog.cls("quantarhei.builders.aggregate_base.AggregateBase")
    funcs += [ab.methods[m_] for m_ in ("dipole_dipole_coupling", "set_coupling_by_dipole_dipole", "calculate_resonance_coupling")
              if m_ in ab.methods]
    for f in funcs:
        if not hasattr(f.node, "args"):
            continue
        n += 1
        prog.consulted.add(f.relpath)
        bad, _ = arrays.inplace_on_inherited_dtype(f.node)
        run.obligation(rid, f.short, not bad, key="no-inplace-float-op-on-input-typed",
                       message="%s applies `%s` in place to `%s`, which has the element type of the function's arguments (%s): for "
                               "positions or dipoles given as whole numbers numpy refuses to store the quotient in the integer "
                               "array, the callers that set all couplings swallow the exception and store a zero coupling - the "
                               "spectrum of the geometry as typed differs from that of its rotated copy"
                               % (f.short, norm(bad[0][0]) if bad else "", bad[0][1] if bad else "", bad[0][2] if bad else ""),
                       loc=f.loc(bad[0][0]) if bad else f.loc(f.node))
    if n < 3:
        raise AnalysisError("C11-K: only %d coupling functions found" % n)


def rule_N(run, prog):
    """'The absorption spectrum returned for a molecule ... equals sum_a |d_a|^2 exp(-g_a(t) - i w_a t)': a Molecule has
    `nel` electronic levels, every transition 0 -> k with a dipole moment absorbs.  In
    AbsSpectrumCalculator._calculate_monomer every read of self.system.elenergies[k], dmoments[0, k], of the lifetime
    and of the environment of level k uses a name bound by a loop over range(..., self.system.nel) for k."""
    rid = "C11-N"
    f = prog.func("quantarhei.spectroscopy.abscalculator.AbsSpectrumCalculator._calculate_monomer")
    prog.consulted.add(f.relpath)
    loopvars = set()
    for lp in walk_no_nested(f.node):
        if isinstance(lp, ast.For) and isinstance(lp.target, ast.Name) and "nel" in norm(lp.iter):
            loopvars.add(lp.target.id)
    n = 0

    def level_exprs():
        for x in walk_no_nested(f.node):
            if isinstance(x, ast.Subscript) and norm(x.value) == "self.system.elenergies":
                yield x, x.slice
            elif isinstance(x, ast.Subscript) and norm(x.value) == "self.system.dmoments" and isinstance(x.slice, ast.Tuple) \
                    and len(x.slice.elts) >= 2:
                yield x, x.slice.elts[1]
            elif isinstance(x, ast.Call) and isinstance(x.func, ast.Attribute) and norm(x.func.value) == "self.system" \
                    and x.func.attr in ("get_electronic_natural_lifetime", "get_egcf", "get_transition_environment") and x.args:
                a = x.args[0]
                yield x, (a.elts[1] if isinstance(a, ast.Tuple) and len(a.elts) == 2 else a)

    for x, lvl in level_exprs():
        if isinstance(lvl, ast.Constant) and lvl.value == 0:
            continue                # the ground state
        n += 1
        ok = isinstance(lvl, ast.Name) and lvl.id in loopvars
        run.obligation(rid, f.short, ok, key="level:" + norm(x)[:50],
                       message="_calculate_monomer reads `%s` for the level %s only: a molecule with more than two levels absorbs on "
                               "every transition 0 -> k that has a dipole moment, and the lines of the other transitions are "
                               "missing from the spectrum" % (norm(x)[:60], norm(lvl)), loc=f.loc(x))
    if n < 3:
        raise AnalysisError("C11-N: only %d reads of level quantities found in _calculate_monomer" % n)


def rule_M(run, prog):
    """'... equals the direct Fourier integral of ... exp(-g_a(t) - i w_a t)': _excitonic_coft reads the stored copies of
    the site functions (sbi.CC).  Every store of function values into the rows of the matrix
    (CorrelationFunctionMatrix.set_correlation_function: self.data[iof, <where>] = fce.data...) covers the whole row with
    the whole function: `:` on both sides (or no subscript on the right)."""
    rid = "C11-M"
    cls = prog.cls("quantarhei.qm.corfunctions.cfmatrix.CorrelationFunctionMatrix")
    n = 0

    def whole(sl):
        return isinstance(sl, ast.Slice) and sl.lower is None and sl.upper is None and sl.step is None

    for nme, f in cls.methods.items():
        if not isinstance(f.node, ast.FunctionDef):
            continue
        for st in walk_no_nested(f.node):
            if not (isinstance(st, ast.Assign) and len(st.targets) == 1 and isinstance(st.targets[0], ast.Subscript)
                    and norm(st.targets[0].value) in ("self.data", "self._cofts")):
                continue
            rhs = st.value
            # an owning copy or a conversion to an array wraps the same values
            while isinstance(rhs, ast.Call) and ((isinstance(rhs.func, ast.Attribute) and rhs.func.attr in ("copy",) and not rhs.args)
                                                 or ((call_name(rhs) or "").split(".")[-1] in ("array", "asarray", "copy") and rhs.args)):
                rhs = rhs.func.value if (isinstance(rhs.func, ast.Attribute) and rhs.func.attr == "copy" and not rhs.args) else rhs.args[0]
            base = rhs
            while isinstance(base, ast.Subscript):
                base = base.value
            if not (isinstance(base, ast.Attribute) and base.attr == "data" and norm(base.value) != "self"):
                continue            # not a copy of a function's values
            n += 1
            prog.consulted.add(f.relpath)
            sl = st.targets[0].slice
            row_whole = isinstance(sl, ast.Tuple) and len(sl.elts) == 2 and whole(sl.elts[1])
            rhs_whole = isinstance(rhs, ast.Attribute) or (isinstance(rhs, ast.Subscript) and whole(rhs.slice))
            run.obligation(rid, f.short, row_whole and rhs_whole, key="whole-row:" + norm(st.targets[0].value),
                           message="%s stores `%s`: a part of the function's values; the rest of the row keeps zeros, and the line "
                                   "shapes (and rates) computed from the matrix belong to a function cut off there" % (f.short, norm(st)[:80]),
                           loc=f.loc(st))
    if n < 1:
        raise AnalysisError("C11-M: no store of a function's values into the matrix of correlation functions found")


def rule_J(run, prog):
    """'The spectrum equals the direct Fourier integral sum_a |d_a|^2 exp(-g_a(t) - i w_a t)' - every line a with its own
    lifetime and its own line-shape function g_a.
    (i) _calculate_aggregate assigns tr["gg"] = gg[1] for the first line in an if/elif chain over the supplied relaxation
    (tensor, rate matrix) and tr["gg"] = gg[ii] for the later lines inside the loop: the names whose presence decides
    it are the same in both places - a source of rates honoured for the first line only broadens that line alone.
    (ii) _excitonic_coft weights the site correlation functions with the participation of molecule k in exciton n.  The
    rows of the eigenvector matrix SS count the states of the aggregate, not the molecules: a row index of SS is taken
    from the aggregate's state table (AG.vibindices[...]) and not computed from the running number of the molecule."""
    from ..loader import parents_map
    rid = "C11-J"
    cls = prog.cls("quantarhei.spectroscopy.abscalculator.AbsSpectrumCalculator")
    f = cls.methods["_calculate_aggregate"]
    prog.consulted.add(f.relpath)
    pm = parents_map(f.node)

    def deciding_names(st):
        names, node = set(), st
        while node is not None and node is not f.node:
            p_ = pm.get(node)
            if isinstance(p_, ast.If):
                chain = p_
                # the whole if/elif chain this If belongs to
                while isinstance(pm.get(chain), ast.If) and chain in pm.get(chain).orelse and len(pm.get(chain).orelse) == 1:
                    chain = pm.get(chain)
                c_ = chain
                while True:
                    # only the tests of the branches that lead to a store of gg[...]
                    if any(isinstance(x, ast.Assign) and norm(x.targets[0]) == "tr['gg']" and norm(x.value).startswith("gg[") for b in c_.body for x in ast.walk(b)):
                        for x in ast.walk(c_.test):
                            if isinstance(x, ast.Compare) and isinstance(x.ops[0], ast.IsNot) and isinstance(x.left, ast.Name):
                                names.add(x.left.id)
                    if len(c_.orelse) == 1 and isinstance(c_.orelse[0], ast.If):
                        c_ = c_.orelse[0]
                    else:
                        break
                return names
            node = p_
        return names
    stores = [x for x in walk_no_nested(f.node) if isinstance(x, ast.Assign) and norm(x.targets[0]) == "tr['gg']" and norm(x.value).startswith("gg[")]
    first = [x for x in stores if isinstance(x.value.slice, ast.Constant)]
    later = [x for x in stores if isinstance(x.value.slice, ast.Name)]
    if not first or not later:
        raise AnalysisError("_calculate_aggregate: the stores of the lifetime terms of the first and of the later lines not found")
    n1 = set().union(*[deciding_names(x) for x in first])
    n2 = set().union(*[deciding_names(x) for x in later])
    run.obligation(rid, "AbsSpectrumCalculator._calculate_aggregate", n1 == n2, key="lines-treated-alike",
                   message="the first exciton line takes its lifetime term when one of %s is supplied, the later lines only for %s: "
                           "with the other source of rates only the first line is lifetime-broadened" % (sorted(n1), sorted(n2)),
                   loc=f.loc(later[0]), sample={"first_line": sorted(n1), "later_lines": sorted(n2)})
    g = cls.methods["_excitonic_coft"]
    prog.consulted.add(g.relpath)
    ss = g.node.args.args[1].arg
    ag = g.node.args.args[2].arg
    rows = [x for x in ast.walk(g.node) if isinstance(x, ast.Subscript) and norm(x.value) == ss and isinstance(x.slice, ast.Tuple)
            and len(x.slice.elts) == 2]
    if not rows:
        raise AnalysisError("_excitonic_coft: no element of the eigenvector matrix is read")
    # loop variables that run over a state table of the aggregate
    state_vars = {lp.target.id for lp in ast.walk(g.node) if isinstance(lp, ast.For) and isinstance(lp.target, ast.Name)
                  and any(isinstance(y, ast.Attribute) and y.attr in ("vibindices", "elinds") and norm(y.value) == ag for y in ast.walk(lp.iter))}
    # (iii) the exciton correlation function is the sum over ALL ordered pairs of molecules: sum_kl w_k w_l C_kl.  Every
    # accumulation of an off-diagonal term C_kl sits in two loops that both run over range(<number of molecules>); a
    # triangular inner loop (range(k+1, N)) visits each unordered pair once and needs the factor 2
    from ..loader import parents_map
    pmg = parents_map(g.node)
    accs = [st for st in walk_no_nested(g.node) if isinstance(st, ast.AugAssign) and any(
        isinstance(c_, ast.Call) and call_name(c_) == "get_coft" for c_ in ast.walk(st.value))]
    if not accs:
        raise AnalysisError("_excitonic_coft: accumulation of the site correlation functions not found")
    for st in accs:
        cof = [c_ for c_ in ast.walk(st.value) if isinstance(c_, ast.Call) and call_name(c_) == "get_coft"][0]
        a_, b_ = [norm(v) for v in cof.args[:2]]
        if a_ == b_:
            continue      # a diagonal term: one loop is enough
        loops = []
        node = st
        while node is not None and node is not g.node:
            p_ = pmg.get(node)
            if isinstance(p_, ast.For) and isinstance(p_.target, ast.Name) and p_.target.id in (a_, b_):
                loops.append(p_)
            node = p_
        full = len(loops) == 2 and all(isinstance(lp.iter, ast.Call) and call_name(lp.iter) == "range" and len(lp.iter.args) == 1
                                       for lp in loops)
        doubled = any(isinstance(y, ast.Constant) and y.value in (2, 2.0) for y in ast.walk(st.value))
        run.obligation(rid, "AbsSpectrumCalculator._excitonic_coft", full or (len(loops) == 2 and doubled), key="all-ordered-pairs:" + norm(cof)[:30],
                       message="_excitonic_coft accumulates the cross-correlation terms %s in loops that do not visit every ordered pair "
                               "of molecules (%s) and without the factor 2: correlated baths of different molecules enter the line shape "
                               "of a delocalised exciton at half weight" % (norm(cof), [norm(lp.iter) for lp in loops]), loc=g.loc(st))
    for x in rows:
        r = x.slice.elts[0]
        ok = (isinstance(r, ast.Name) and r.id in state_vars) or any(
            isinstance(y, ast.Attribute) and y.attr in ("vibindices", "elinds") and norm(y.value) == ag for y in ast.walk(r))
        run.obligation(rid, "AbsSpectrumCalculator._excitonic_coft", ok, key="row-is-a-state:" + norm(x)[:30],
                       message="_excitonic_coft reads %s: the row index is computed from the number of the molecule, but the rows of the "
                               "eigenvector matrix are states of the aggregate; with vibrational modes these rows are vibrational levels "
                               "of the ground state and the line-shape functions come out as zero" % norm(x), loc=g.loc(x))
