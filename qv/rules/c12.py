"""C12 - third-order response: exact orientational average, additivity,
symmetry.

Decided statically: pathway construction and the mock 2D calculator only use
APIs that exist in the installed NumPy (A); the isotropic rank-four average:
M4 folds to [[4,-1,-1],[-1,4,-1],[-1,-1,4]]/30, the field factor F4e[k] and the
dipole factor F4n[k] use, for each k, the same perfect matching of {0,1,2,3},
the three matchings are all three, and the prefactor is sign * F4e.M4.F4n (B,
index algebra); every factor is a product of two scalar products covering the
four vectors once each, hence degree one in each vector and rotation
invariant (C); the signal/type tables partition the pathway types (D, C19-A).
Not decided: exact cancellation of cross peaks for uncoupled molecules.
"""
import ast

from ..loader import AnalysisError, norm, walk_no_nested, call_name, const_value
from .. import apiexist, ta
from ..ta import Expr, Array, normal, show_normal, from_normal
from ..ta_front import Interp, Obj
from . import c19

LAB = "quantarhei.spectroscopy.labsetup.LabSetup"
LP = "quantarhei.spectroscopy.diagramatics.liouville_pathway"


def check(run, prog, tier):
    run.explanation = (
        "API-existence resolution of every numpy/scipy attribute chain on the call closure of pathway "
        "construction, pathway generation and the mock 2D calculator; constant folding of M4; "
        "index-algebra interpretation of the three stores that define the field factor and of the "
        "three that define the dipole factor, compared term by term (same matching per component, "
        "all three matchings, each vector exactly once, every dummy contracted exactly twice); "
        "expression check of the prefactor; partition tables of C19. The textbook formula for the "
        "isotropic average of four projections is trusted.")
    run.trusted_base = ["<(e0.d0)(e1.d1)(e2.d2)(e3.d3)>_orientations = F4e . M4 . F4n with M4 = (4 on the diagonal, "
                        "-1 off the diagonal)/30 when F4e[k] and F4n[k] use the same pairing"]
    run.rule("C12-A", "pathway construction and the 2D calculators use existing APIs", minimum=30)
    run.rule("C12-B", "isotropic rank-four average: M4, matchings, prefactor", minimum=8)
    run.rule("C12-C", "every orientational factor is a product of two scalar products over the four vectors", minimum=6)
    run.rule("C12-D", "signal and process tables partition the pathway types", minimum=4)
    run.rule("C12-G", "screening thresholds scale like the quantities they are compared with (degree in a common "
                      "dipole factor)", minimum=4)
    run.rule("C12-F", "transition dephasing is the transition width formula with the dephasing matrix (sibling "
                      "agreement of the two line-shape look-ups)", minimum=4)
    run.rule("C12-E", "every generated pathway is a well-formed double-sided diagram and takes its line shapes from "
                      "the coherence it is in (symbolic diagram tracking)", minimum=12)
    rule_A(run, prog)
    Fe, Fd = rule_B(run, prog)
    rule_C(run, prog, Fe, Fd)
    rule_E(run, prog)
    rule_F(run, prog)
    rule_G(run, prog)
    m = prog.module("quantarhei.spectroscopy.twod2")

    class Proxy:
        def __init__(self, run):
            self.run = run

        def obligation(self, rid, construct, ok, **kw):
            self.run.obligation("C12-D", construct, ok, **kw)

        def __getattr__(self, name):
            return getattr(self.run, name)
    c19.rule_A(Proxy(run), prog, m)
    run.rule("C12-H", "reading the rephasing or non-rephasing signal of a response does not change what is stored, so "
                      "that total = rephasing + non-rephasing holds for every order of reads (ownership states of the "
                      "view accumulators, rule of C19-F)", minimum=8)
    from ..report import RuleProxy
    c19.rule_F(RuleProxy(run, "C12-H"), prog, m)
    run.rule("C12-I", "exciton line widths weight the site widths with the coefficients of the sites in that exciton: the "
                      "eigenvector matrix is indexed [site, exciton]", minimum=2)
    rule_I(run, prog, "C12-I", "for uncoupled molecules the widths are then permuted among the molecules and the response is no "
                               "longer the sum of the molecules' responses")
    run.rule("C12-N", "the response calculator generates the pathways of every calculation from the system and the laboratory set-up "
                      "as they are now: no pathway list or prefactor kept from an earlier call (a set-up object is changed in place "
                      "by set_pulse_polarizations)", minimum=1)
    from . import memorule
    memorule.check(run, prog, "C12-N", ["quantarhei.spectroscopy.mocktwodcalculator.MockTwoDResponseCalculator",
                                         "quantarhei.spectroscopy.labsetup.LabSetup"],
                   "pathways kept from an earlier call carry the orientational prefactors of the earlier polarisations")
    run.rule("C12-O", "the averaging vector F4e.M4 that the pathways read belongs to the polarisations the set-up holds now: it is "
                      "derived from them on every read, or every method of the set-up and of its field objects that writes a "
                      "polarisation derives it again", minimum=2)
    rule_O(run, prog)
    run.rule("C12-M", "the pathway generators diagonalize an aggregate that is not diagonalized yet: no call placed under the very "
                      "condition under which the callee returns at once", minimum=2)
    rule_M(run, prog)
    run.rule("C12-L", "the squared transition dipoles that select the pathways are scalar products (rotation invariant)", minimum=2)
    rule_L(run, prog)
    run.rule("C12-K", "the widths and dephasing rates of a pathway fall back to the calculator's own exactly when they are not "
                      "given: each selection tests the entry it uses", minimum=4)
    rule_K(run, prog)
    rule_I2(run, prog, "C12-I", "for uncoupled molecules the ESA lines get the widths of other molecules and no longer cancel the "
                                "cross peaks: the response is not the sum of the molecules' responses")


def rule_I(run, prog, rid, what):
    """In Aggregate.diagonalize SS comes from numpy.linalg.eigh(self.HH): SS[n, a] is the coefficient of site-basis state n
    in eigenstate a.  A statement that accumulates into R[a] a site quantity self.Wd[n, n] / self.Dr[n, n] weighted with
    a power of SS[i, j], where n is one of i, j, sums over the sites n for the exciton a: the site index is the first
    index of SS and the index of the result the second.  (|SS|^4 is symmetric for dimers and for transpositions, so the
    exchange shows only for three or more molecules with a cyclic order of the energies.)"""
    f = prog.func("quantarhei.builders.aggregate_base.AggregateBase.diagonalize")
    prog.consulted.add(f.relpath)
    src = [n for n in walk_no_nested(f.node) if isinstance(n, ast.Assign) and isinstance(n.value, ast.Call)
           and norm(n.value.func).endswith("linalg.eigh") and isinstance(n.targets[0], ast.Tuple)
           and [norm(e) for e in n.targets[0].elts][1:] == ["SS"]]
    if len(src) != 1 or norm(src[0].value.args[0]) != "self.HH":
        raise AnalysisError("diagonalize: SS is no longer the eigenvector matrix of eigh(self.HH)")
    n_st = 0
    for st in walk_no_nested(f.node):
        if not (isinstance(st, ast.AugAssign) and isinstance(st.target, ast.Subscript) and isinstance(st.target.slice, ast.Name)):
            continue
        res = st.target.slice.id
        site = None
        for x in ast.walk(st.value):
            if isinstance(x, ast.Subscript) and norm(x.value) in ("self.Wd", "self.Dr") and isinstance(x.slice, ast.Tuple) \
                    and len(x.slice.elts) == 2 and all(isinstance(e, ast.Name) for e in x.slice.elts) \
                    and x.slice.elts[0].id == x.slice.elts[1].id:
                site = x.slice.elts[0].id
        if site is None:
            continue
        for x in ast.walk(st.value):
            if isinstance(x, ast.Subscript) and norm(x.value) == "SS" and isinstance(x.slice, ast.Tuple) and len(x.slice.elts) == 2 \
                    and all(isinstance(e, ast.Name) for e in x.slice.elts):
                i, j = [e.id for e in x.slice.elts]
                if site not in (i, j):
                    continue
                n_st += 1
                run.obligation(rid, "AggregateBase.diagonalize", (i, j) == (site, res), key="site-first:" + norm(st)[:50],
                               message="diagonalize accumulates the site quantity indexed by %s into %s[%s] with the weight %s: "
                                       "SS = eigh(HH)[1] is indexed [site, exciton], here the two are exchanged - %s"
                                       % (site, norm(st.target.value), res, norm(x), what), loc=f.loc(st),
                               sample={"statement": norm(st)[:80]})
    if n_st < 2:
        raise AnalysisError("diagonalize: only %d width accumulations over sites recognised (2 confirmed)" % n_st)


def rule_O(run, prog):
    """'The orientational prefactor of every pathway equals the exact average of the product of the four field-dipole
    projections': pathways compute sign * (lab.F4eM4 . F4n).  LabSetup.e holds the four polarisations; LabField objects
    write single rows of it (set_polarization, the `pol` attribute).  Either F4eM4 is a property whose getter computes
    from self.e, or every function of the module that stores into `.e` of a set-up assigns F4eM4 afterwards."""
    rid = "C12-O"
    lab = prog.cls("quantarhei.spectroscopy.labsetup.LabSetup")
    mod = lab.module
    prog.consulted.add(mod.relpath)
    getter = lab.methods.get("F4eM4")
    derived_on_read = False
    if getter is not None and isinstance(getter.node, ast.FunctionDef):
        derived_on_read = any(isinstance(x, ast.Attribute) and norm(x) == "self.e" for x in ast.walk(getter.node))
    # the property may also be defined by name in the class body (getter + setter share the name: the loader keeps one)
    for st in lab.node.body:
        if isinstance(st, ast.FunctionDef) and st.name == "F4eM4" and any(norm(d) == "property" for d in st.decorator_list):
            derived_on_read = any(isinstance(x, ast.Attribute) and norm(x) == "self.e" for x in ast.walk(st))
    n = 0
    for cls in mod.classes.values():
        for nme, f in cls.methods.items():
            if not isinstance(f.node, ast.FunctionDef):
                continue
            stores = []
            for st in walk_no_nested(f.node):
                if isinstance(st, (ast.Assign, ast.AugAssign)):
                    for t_ in (st.targets if isinstance(st, ast.Assign) else [st.target]):
                        b_ = t_
                        while isinstance(b_, ast.Subscript):
                            b_ = b_.value
                        if isinstance(b_, ast.Attribute) and b_.attr == "e" and norm(b_.value) in ("self", "self.labsetup", "lab") \
                                and not (isinstance(st, ast.Assign) and isinstance(st.value, ast.Constant) and st.value.value is None):
                            stores.append(st)
            if not stores or nme == "__init__":
                continue
            n += 1
            rederives = any(isinstance(st, ast.Assign) and any(isinstance(t_, ast.Attribute) and t_.attr == "F4eM4" for t_ in st.targets)
                            and st.lineno > stores[-1].lineno for st in walk_no_nested(f.node))
            run.obligation(rid, f.short, derived_on_read or rederives, key="polarisation-writer",
                           message="%s writes a polarisation (`%s`) and the averaging vector F4eM4, which is stored when "
                                   "set_pulse_polarizations runs, is not derived again: the pathways generated afterwards carry the "
                                   "orientational prefactor of the old polarisations" % (f.short, norm(stores[0])[:50]),
                           loc=f.loc(stores[0]))
    if n < 2:
        raise AnalysisError("C12-O: only %d methods writing polarisations found (set_pulse_polarizations, LabField.set_polarization)" % n)


def rule_M(run, prog):
    """'For an aggregate of uncoupled molecules the response equals the sum of the responses of the molecules': the ESA
    pathways cancel the cross peaks only with the line widths of the 1->2 transitions, which AggregateBase.diagonalize()
    computes (the cross terms of Wd).  The pathway generators call self.diagonalize() themselves so that a user who did
    not is served as well - but diagonalize() returns at once when self._diagonalized is set.  A call placed under
    `if self._diagonalized:` is therefore reached only when it does nothing, and never when it is needed (a contradiction
    between the caller's condition and the callee's own guard).  Package-wide: where a method is called under a test of
    a flag of self, and that method starts by returning when the same flag has the tested value, the call is dead."""
    from .. import memo
    rid = "C12-M"
    n = 0
    for cls in prog.all_classes():
        if ".tests." in cls.qualname or ".wizard." in cls.qualname:
            continue
        methods = None
        for nme, f in cls.methods.items():
            for iff in [x for x in walk_no_nested(f.node) if isinstance(x, ast.If)]:
                t_ = iff.test
                neg = False
                while isinstance(t_, ast.UnaryOp) and isinstance(t_.op, ast.Not):
                    t_, neg = t_.operand, not neg
                if not (isinstance(t_, ast.Attribute) and norm(t_.value) == "self"):
                    continue
                flag = t_.attr
                for st in iff.body:
                    for c in ast.walk(st):
                        if not (isinstance(c, ast.Call) and isinstance(c.func, ast.Attribute) and norm(c.func.value) == "self" and not c.args):
                            continue
                        if methods is None:
                            methods = memo._class_methods(prog, cls)
                        callee = methods.get(c.func.attr)
                        if callee is None:
                            continue
                        # the callee's own guard on the same flag: `if self.F: return` / `if not self.F: return`
                        g = None
                        for cs in callee.node.body:
                            if isinstance(cs, ast.Expr) and isinstance(cs.value, ast.Constant):
                                continue
                            if isinstance(cs, ast.If) and len(cs.body) == 1 and isinstance(cs.body[0], ast.Return) and not cs.orelse:
                                ct, cneg = cs.test, False
                                while isinstance(ct, ast.UnaryOp) and isinstance(ct.op, ast.Not):
                                    ct, cneg = ct.operand, not cneg
                                if isinstance(ct, ast.Attribute) and norm(ct.value) == "self" and ct.attr == flag:
                                    g = cneg
                            break
                        if g is None:
                            continue
                        n += 1
                        prog.consulted.add(f.relpath)
                        dead = (g == neg)       # the caller reaches the call exactly when the callee returns at once
                        run.obligation(rid, f.short, not dead, key="call-not-dead:%s:%s" % (c.func.attr, flag),
                                       message="%s calls self.%s() under `%s`, and %s begins with `%s: return`: the call is reached only "
                                               "when it does nothing.  An aggregate that was not diagonalized by hand is never "
                                               "diagonalized here, the widths of the 1->2 transitions lack their cross terms, and the "
                                               "excited-state absorption no longer cancels the cross peaks of uncoupled molecules"
                                               % (f.short, c.func.attr, norm(iff.test), callee.short, norm(callee.node.body[0].test)
                                                  if isinstance(callee.node.body[0], ast.If) else "if self.%s" % flag),
                                       loc=f.loc(c), sample={"flag": flag, "callee": callee.short})
    if n < 2:
        raise AnalysisError("C12-M: only %d calls under a flag that the callee tests itself (2 confirmed)" % n)


def rule_L(run, prog):
    """'Unchanged by a common rotation of all dipoles': the pathway generators decide which pathways exist by comparing
    self.D2[a, b], the squared length of the transition dipole between two states, with a tolerance.  |d|^2 = d.d is
    invariant; anything else made of the Cartesian components - (dx + dy + dz)^2 from an einsum whose two operands carry
    different letters for the Cartesian axis - is not, and vanishes for d = (0.9, -0.9, 0): the pathways through that
    transition are dropped for one orientation of the aggregate and kept for another.  Every value stored into the table
    of squared dipoles (dd2[...] / self.D2) in the aggregate is a scalar product of one and the same slice of self.DD:
    numpy.dot(x, x), an einsum with the same letter for the last axis of both operands and not in the output, or a sum
    of squares over the last axis."""
    rid = "C12-L"
    n = 0
    cls = prog.cls("quantarhei.builders.aggregate_base.AggregateBase")
    for nme, f in cls.methods.items():
        for st in walk_no_nested(f.node):
            if not isinstance(st, ast.Assign):
                continue
            b_ = st.targets[0]
            while isinstance(b_, ast.Subscript):
                b_ = b_.value
            if norm(b_) not in ("dd2", "self.D2") or not any(isinstance(x, ast.Attribute) and x.attr == "DD" for x in ast.walk(st.value)):
                continue
            n += 1
            prog.consulted.add(f.relpath)
            v = st.value
            ok, why = False, "is not recognised as a scalar product"
            if isinstance(v, ast.Call) and (call_name(v) or "").split(".")[-1] in ("dot", "vdot", "inner") and len(v.args) == 2:
                ok = norm(v.args[0]) == norm(v.args[1])
                why = "multiplies two different vectors"
            elif isinstance(v, ast.Call) and (call_name(v) or "").split(".")[-1] == "einsum" and v.args \
                    and isinstance(v.args[0], ast.Constant) and isinstance(v.args[0].value, str):
                spec = v.args[0].value.replace(" ", "")
                ins, _, out_ = spec.partition("->")
                ops = ins.split(",")
                if len(ops) == 2 and len(v.args) == 3 and norm(v.args[1]) == norm(v.args[2]):
                    ok = ops[0] == ops[1] and ops[0][-1] not in out_ and all(c in out_ for c in ops[0][:-1])
                    why = "contracts the Cartesian axis of the two operands under different letters (%s): a product of the sums of " \
                          "the components, not the sum of their products" % spec
            elif isinstance(v, ast.Call) and (call_name(v) or "").split(".")[-1] == "sum" and v.args:
                inner = v.args[0]
                sq = (isinstance(inner, ast.BinOp) and ((isinstance(inner.op, ast.Pow) and isinstance(inner.right, ast.Constant) and inner.right.value == 2)
                                                        or (isinstance(inner.op, ast.Mult) and norm(inner.left) == norm(inner.right))))
                axis = [k for k in v.keywords if k.arg == "axis"]
                ok = sq and (bool(axis) and norm(axis[0].value) in ("-1", "2") or not isinstance(st.targets[0], ast.Name))
                why = "is not a sum of squares over the Cartesian axis"
            run.obligation(rid, f.short, ok, key="squared-dipole-is-a-scalar-product:" + norm(st.targets[0])[:20],
                           message="%s fills the table of squared transition dipoles with `%s`, which %s: the quantity is not "
                                   "invariant under rotations (it vanishes for d = (0.9, -0.9, 0)), and the pathway selection that "
                                   "compares it with a tolerance depends on the orientation of the aggregate"
                                   % (f.short, norm(v)[:70], why), loc=f.loc(st), sample={"value": norm(v)[:70]})
    if n < 2:
        raise AnalysisError("C12-L: only %d places fill the table of squared dipoles (2 confirmed)" % n)


def rule_K(run, prog):
    """'... for all line widths': a pathway carries the width and the dephasing rate of its two coherence intervals, a
    negative entry meaning 'not given - use the calculator's own'.  Each selection has the shape
    `if P.A[i] < 0.0: x = self.x  else: x = P.A[i]`: the entry that is tested is the entry that is used.  A selection that
    tests the width and uses the dephasing rate hands a negative rate (-1, 'not given') to the Lorentzian line shape
    whenever a width was given without a rate, and ignores a given rate when no width was given."""
    rid = "C12-K"
    f = prog.func("quantarhei.spectroscopy.mocktwodcalculator.MockTwoDResponseCalculator._calculate_pathway")
    prog.consulted.add(f.relpath)
    n = 0
    for st in walk_no_nested(f.node):
        if not (isinstance(st, ast.If) and isinstance(st.test, ast.Compare) and len(st.body) == 1 and len(st.orelse) == 1
                and isinstance(st.body[0], ast.Assign) and isinstance(st.orelse[0], ast.Assign)
                and norm(st.body[0].targets[0]) == norm(st.orelse[0].targets[0])):
            continue
        tested = st.test.left
        used = st.orelse[0].value
        if not (isinstance(tested, ast.Subscript) and isinstance(used, ast.Subscript)):
            continue
        n += 1
        run.obligation(rid, f.short, norm(tested) == norm(used), key="default-tests-what-it-replaces:" + norm(st.body[0].targets[0]),
                       message="%s chooses %s by testing %s and then uses %s: a negative ('not given') %s reaches the line shape when "
                               "%s was given, and a given value is ignored when it was not"
                               % (f.short, norm(st.body[0].targets[0]), norm(tested), norm(used), norm(used), norm(tested)),
                       loc=f.loc(st), sample={"tested": norm(tested), "used": norm(used)})
    if n < 4:
        raise AnalysisError("_calculate_pathway: only %d default selections found (4 confirmed)" % n)


def index_roles(nest):
    """Roles of the index variables of one loop nest of diagonalize: 'site' (labels a state of the site basis) or 'exc'
    (labels an eigenstate).  Evidence, iterated to a fixed point:
      site: x = self.twoex_indx[v, c] (x and v); both indices of a Kronecker delta[a, b] once one of them is a site; the
            index of a diagonal read self.Wd[a, a] / self.Dr[a, a] / Wd_in[a] (site widths)
      exc:  the indices of a store into self.Wd[..], Wd_a[..], Dr_a[..], Wd_c[..], Dr_c[..] (transformed widths)
    Returns ({name: role}, [names with both roles])."""
    site, exc = set(), set()
    for x in ast.walk(nest):
        if isinstance(x, ast.Assign) and isinstance(x.value, ast.Subscript) and norm(x.value.value) == "self.twoex_indx":
            for t_ in x.targets:
                if isinstance(t_, ast.Name):
                    site.add(t_.id)
            sl = x.value.slice
            if isinstance(sl, ast.Tuple) and sl.elts and isinstance(sl.elts[0], ast.Name):
                site.add(sl.elts[0].id)
        if isinstance(x, ast.Subscript) and isinstance(x.ctx, ast.Load) and norm(x.value) in ("self.Wd", "self.Dr") \
                and isinstance(x.slice, ast.Tuple) and len(x.slice.elts) == 2 and all(isinstance(e, ast.Name) for e in x.slice.elts) \
                and x.slice.elts[0].id == x.slice.elts[1].id:
            site.add(x.slice.elts[0].id)
        if isinstance(x, ast.Subscript) and isinstance(x.ctx, ast.Load) and norm(x.value) == "Wd_in" and isinstance(x.slice, ast.Name):
            site.add(x.slice.id)
        if isinstance(x, (ast.Assign, ast.AugAssign)):
            tg = x.targets if isinstance(x, ast.Assign) else [x.target]
            for t_ in tg:
                if isinstance(t_, ast.Subscript) and norm(t_.value) in ("self.Wd", "self.Dr", "Wd_a", "Dr_a", "Wd_c", "Dr_c"):
                    els = t_.slice.elts if isinstance(t_.slice, ast.Tuple) else [t_.slice]
                    for e in els:
                        if isinstance(e, ast.Name):
                            exc.add(e.id)
    changed = True
    while changed:
        changed = False
        for x in ast.walk(nest):
            if isinstance(x, ast.Subscript) and norm(x.value) == "delta" and isinstance(x.slice, ast.Tuple) and len(x.slice.elts) == 2 \
                    and all(isinstance(e, ast.Name) for e in x.slice.elts):
                a, b = [e.id for e in x.slice.elts]
                if (a in site) != (b in site):
                    site |= {a, b}
                    changed = True
    roles = {v: "site" for v in site}
    roles.update({v: "exc" for v in exc if v not in site})
    return roles, sorted(site & exc)


def rule_I2(run, prog, rid, what):
    """The cross terms and the two-exciton widths of diagonalize contain SS twice or more per term, with indices that are
    not the index of the accumulated site quantity (SS[nn_2x, aa_2x]**2 * SS[k_1x, alpha]**2).  Index-role inference per
    loop nest: every SS[i, j] has a site-basis label in the first place and an eigenstate label in the second.  For a
    dimer the squared 2x2 block is symmetric and the exchange does not show; for three or more molecules whose order of
    energies is a cyclic shift the ESA line widths belong to the wrong molecule."""
    f = prog.func("quantarhei.builders.aggregate_base.AggregateBase.diagonalize")
    from ..loader import parents_map
    pm = parents_map(f.node)
    nests = [x for x in walk_no_nested(f.node) if isinstance(x, ast.For)
             and not any(isinstance(a, ast.For) for a in _ancestors(pm, x))]
    n = 0
    for nest in nests:
        roles, both = index_roles(nest)
        for x in ast.walk(nest):
            if isinstance(x, ast.Subscript) and norm(x.value) == "SS" and isinstance(x.slice, ast.Tuple) and len(x.slice.elts) == 2 \
                    and all(isinstance(e, ast.Name) for e in x.slice.elts):
                i, j = [e.id for e in x.slice.elts]
                ri, rj = roles.get(i), roles.get(j)
                if ri is None and rj is None:
                    continue
                n += 1
                ok = ri != "exc" and rj != "site" and i not in both and j not in both
                run.obligation(rid, "AggregateBase.diagonalize", ok, key="roles:%s@%d" % (norm(x), n),
                               message="diagonalize reads %s where %s labels %s and %s labels %s: SS = eigh(HH)[1] is indexed "
                                       "[site, exciton], the element read is the transposed one - %s"
                                       % (norm(x), i, {"site": "a site-basis state", "exc": "an eigenstate", None: "?"}[ri],
                                          j, {"site": "a site-basis state", "exc": "an eigenstate", None: "?"}[rj], what),
                               loc=f.loc(x), sample={"element": norm(x), "roles": [ri, rj]})
    if n < 6:
        raise AnalysisError("diagonalize: only %d eigenvector elements with inferred index roles (6 confirmed)" % n)


def _ancestors(pm, x):
    p_ = pm.get(x)
    while p_ is not None:
        yield p_
        p_ = pm.get(p_)


def rule_G(run, prog):
    """'Scales with the fourth power of a common dipole factor': under d -> s d every quantity has a
    degree (D2 and D2_max: 2, a pathway prefactor: 4, tolerances given by the caller, populations,
    evolution amplitudes and literals: 0; sqrt halves, products add).  A comparison that decides
    whether a pathway or a line shape is computed must compare quantities of equal degree, otherwise
    the set of pathways - and with it the response - does not scale."""
    rid = "C12-G"
    BASE = {"D2": 2, "D2_max": 2, "pref": 4}

    def degree(e, env):
        """degree or None (unknown / not a scaling quantity)"""
        if isinstance(e, ast.Constant):
            return 0
        if isinstance(e, ast.Name):
            return env.get(e.id, BASE.get(e.id))
        if isinstance(e, ast.Attribute):
            return BASE.get(e.attr)
        if isinstance(e, ast.Subscript):
            return degree(e.value, env)
        if isinstance(e, ast.Call):
            cn = call_name(e)
            if cn == "sqrt" and e.args:
                d = degree(e.args[0], env)
                return None if d is None else d / 2
            if cn in ("abs", "absolute", "real", "max", "amax", "float") and e.args:
                return degree(e.args[0], env)
            return None
        if isinstance(e, ast.UnaryOp):
            return degree(e.operand, env)
        if isinstance(e, ast.BinOp):
            a, b = degree(e.left, env), degree(e.right, env)
            if isinstance(e.op, ast.Mult):
                return None if (a is None and b is None) else (a or 0) + (b or 0)
            if isinstance(e.op, ast.Div):
                return None if (a is None and b is None) else (a or 0) - (b or 0)
            if isinstance(e.op, ast.Pow) and isinstance(e.right, ast.Constant) and a is not None:
                return a * e.right.value
            if isinstance(e.op, (ast.Add, ast.Sub)):
                return a if a == b else (a if b is None else (b if a is None else "mixed"))
        return None
    mods = [prog.module("quantarhei.builders.aggregate_spectroscopy"), prog.module("quantarhei.spectroscopy.mocktwodcalculator")]
    funcs = []
    for m_ in mods:
        prog.consulted.add(m_.relpath)
        funcs += list(m_.functions.values()) + [f for c in m_.classes.values() for f in c.methods.values()]
    # tolerances handed to the generators as parameters take the degree of their definition in the callers
    param_deg = {}
    defs = []
    for f in funcs:
        for n in walk_no_nested(f.node):
            if isinstance(n, ast.Assign) and isinstance(n.targets[0], ast.Name) and n.targets[0].id.endswith("_tol"):
                d = degree(n.value, {})
                if d not in (None, 0):
                    param_deg.setdefault(n.targets[0].id, set()).add(d)
                    defs.append((f, n, d))
    npar = 0
    for f in funcs:
        env = {k: (list(v)[0] if len(v) == 1 else "mixed") for k, v in param_deg.items()}
        for n in sorted(walk_no_nested(f.node), key=lambda x: getattr(x, "lineno", 0)):
            if isinstance(n, ast.Assign) and isinstance(n.targets[0], ast.Name):
                d = degree(n.value, env)
                if d is not None:
                    env[n.targets[0].id] = d
        bad = []
        ncmp = 0
        for n in walk_no_nested(f.node):
            if isinstance(n, ast.Compare) and len(n.ops) == 1 and isinstance(n.ops[0], (ast.Lt, ast.LtE, ast.Gt, ast.GtE)):
                a, b = degree(n.left, env), degree(n.comparators[0], env)
                if (a not in (None, 0)) or (b not in (None, 0)):
                    ncmp += 1
                    if a != b and not (a is None or b is None):
                        bad.append((n, a, b))
                    elif (a is None) != (b is None):
                        pass      # one side is not a scaling quantity the analysis knows: not decided
        if ncmp:
            npar += 1
            # the verdict is attached to the definition of the tolerance when the mismatch comes from one
            run.obligation(rid, f.short, not bad, key="comparison-degrees",
                           message="%s compares quantities that scale differently with a common dipole factor: %s" % (
                               f.short, "; ".join("'%s' has degree %s against %s" % (norm(n)[:50], a, b) for n, a, b in bad[:2])),
                           loc=f.loc(bad[0][0]) if bad else f.loc(), sample={"function": f.short, "comparisons": ncmp})
    if npar < 4:
        raise AnalysisError("only %d functions with dipole-scaled comparisons found" % npar)


def rule_F(run, prog):
    """get_transition_width((f, i)) and get_transition_dephasing((f, i)) feed the Gaussian and the
    Lorentzian line shape of the same pathway.  Both simulate g_ff + g_ii - 2 Re g_fi from a matrix of
    square roots (Wd, Dr); the cancellation of excited-state absorption against the other pathways for
    uncoupled molecules needs the same combination in both.  Branch by branch (band of the initial and
    final state) the returned expressions must be equal after renaming Wd -> Dr."""
    rid = "C12-F"
    AB_ = "quantarhei.builders.aggregate_base.AggregateBase."
    w = prog.func(AB_ + "get_transition_width")
    d = prog.func(AB_ + "get_transition_dephasing")

    def branches(f, mat):
        out = {}
        for n in ast.walk(f.node):
            if isinstance(n, ast.If) and "self.which_band[eli]" in norm(n.test) and "self.which_band[elf]" in norm(n.test):
                key = norm(n.test)
                val = None
                binds = {norm(s_.targets[0]): s_.value for s_ in n.body if isinstance(s_, ast.Assign)}
                for s_ in n.body:
                    if isinstance(s_, ast.Return) and s_.value is not None:
                        v = s_.value
                        if isinstance(v, ast.Name) and v.id in binds:
                            v = binds[v.id]
                        val = norm(v).replace("self.%s" % mat, "self.M")
                if val is not None:
                    out[key] = val
        return out
    bw, bd = branches(w, "Wd"), branches(d, "Dr")
    if len(bw) < 4 or set(bw) != set(bd):
        raise AnalysisError("line-shape look-ups: band branches differ or not found: %s vs %s" % (sorted(bw), sorted(bd)))
    for key in sorted(bw):
        run.obligation(rid, "AggregateBase.get_transition_dephasing", bw[key] == bd[key], key="branch:" + key[:70],
                       message="for %s the dephasing is %s while the width is %s (M = matrix of square roots): the two "
                               "line shapes of one pathway are built from different combinations" % (key, bd[key], bw[key]),
                       loc=d.loc(), sample={"branch": key, "width": bw[key]})


def rule_E(run, prog):
    """Tracks |ket><bra| through the calls that build a Liouville pathway in every generator of
    builders/aggregate_spectroscopy.py:

      liouville_pathway(kind, g, ...)          |g><g|
      add_transition((to, frm), +1, ...)       ket: frm -> to      (frm must be the current ket)
      add_transition((to, frm), -1, ...)       bra: frm -> to      (frm must be the current bra)
      add_transfer((k2, b2), (k1, b1))         |k1><b1| -> |k2><b2| (must be the current state)

    and requires (i) every step starts from the state the diagram is in, (ii) the diagram ends in a
    population, (iii) a transition tagged interval=k, width=W, deph=D has W and D looked up for the
    two states of the coherence present after the k-th interaction.  The cancellation of cross peaks
    for uncoupled molecules needs each excited-state-absorption pathway to carry the line shape of the
    coherence it shares with its ground-state counterpart; a look-up for a neighbouring index is
    invisible unless the molecules have different widths."""
    rid = "C12-E"
    m = prog.module("quantarhei.builders.aggregate_spectroscopy")
    prog.consulted.add(m.relpath)
    npath = 0
    allf = dict(m.functions)
    for c_ in m.classes.values():
        for nme, fn in c_.methods.items():
            allf["%s.%s" % (c_.name, nme)] = fn
    for fname, f in sorted(allf.items()):
        calls = [n for n in ast.walk(f.node) if isinstance(n, ast.Call)]
        ctors = sorted([c for c in calls if call_name(c) == "liouville_pathway"], key=lambda c: c.lineno)
        if not ctors:
            continue
        steps = sorted([c for c in calls if isinstance(c.func, ast.Attribute) and c.func.attr in
                        ("add_transition", "add_transfer")], key=lambda c: (c.lineno, c.col_offset))
        lookups = {}
        for n in ast.walk(f.node):
            if isinstance(n, ast.Assign) and isinstance(n.targets[0], ast.Name) and isinstance(n.value, ast.Call) \
                    and call_name(n.value) in ("get_transition_width", "get_transition_dephasing") and n.value.args:
                a0 = n.value.args[0]
                if isinstance(a0, ast.Tuple) and len(a0.elts) == 2:
                    lookups.setdefault(n.targets[0].id, []).append((n.lineno, tuple(norm(e) for e in a0.elts)))
        for k, ct in enumerate(ctors):
            hi = ctors[k + 1].lineno if k + 1 < len(ctors) else 10 ** 9
            mine = [c for c in steps if ct.lineno <= c.lineno < hi]
            if len(ct.args) < 2 or not mine:
                continue
            npath += 1
            g = norm(ct.args[1])
            ket = bra = g
            problems = []
            ntrans = 0
            after = {0: (ket, bra)}
            tagged = []
            for c in mine:
                if c.func.attr == "add_transition":
                    pair = c.args[0]
                    side = c.args[1] if len(c.args) > 1 else None
                    if not (isinstance(pair, ast.Tuple) and len(pair.elts) == 2) or side is None:
                        raise AnalysisError("%s: add_transition call outside the vocabulary: %s" % (fname, norm(c)[:60]))
                    to, frm = norm(pair.elts[0]), norm(pair.elts[1])
                    sv = norm(side).replace("+", "")
                    if sv == "1":
                        if ket != frm:
                            problems.append("'%s' starts from %s but the ket is %s" % (norm(c)[:40], frm, ket))
                        ket = to
                    elif sv == "-1":
                        if bra != frm:
                            problems.append("'%s' starts from %s but the bra is %s" % (norm(c)[:40], frm, bra))
                        bra = to
                    else:
                        raise AnalysisError("%s: side %s" % (fname, sv))
                    ntrans += 1
                    after[ntrans] = (ket, bra)
                    kw = {x.arg: x.value for x in c.keywords}
                    if "interval" in kw:
                        tagged.append((c, kw))
                else:
                    new, old = c.args[0], c.args[1]
                    if not all(isinstance(x, ast.Tuple) and len(x.elts) == 2 for x in (new, old)):
                        raise AnalysisError("%s: add_transfer call outside the vocabulary" % fname)
                    o = (norm(old.elts[0]), norm(old.elts[1]))
                    if o != (ket, bra):
                        problems.append("transfer from |%s><%s| but the state is |%s><%s|" % (o + (ket, bra)))
                    ket, bra = norm(new.elts[0]), norm(new.elts[1])
                    after[ntrans] = (ket, bra)
            if ket != bra:
                problems.append("ends in the coherence |%s><%s|, not in a population" % (ket, bra))
            for c, kw in tagged:
                iv = kw["interval"]
                if not isinstance(iv, ast.Constant):
                    raise AnalysisError("%s: non-literal interval" % fname)
                coh = after.get(iv.value)
                if coh is None:
                    problems.append("interval %s tagged but only %d interactions" % (iv.value, ntrans))
                    continue
                for role in ("width", "deph"):
                    v = kw.get(role)
                    if v is None:
                        continue
                    if not isinstance(v, ast.Name) or v.id not in lookups:
                        raise AnalysisError("%s: %s=%s is not a looked-up transition quantity" % (fname, role, norm(v)))
                    cands = [p for ln, p in lookups[v.id] if ct.lineno <= ln < hi] or [p for _, p in lookups[v.id]]
                    pr = cands[-1]
                    if set(pr) != set(coh):
                        problems.append("interval %s: %s looked up for the transition (%s, %s) while the diagram is in "
                                        "the coherence |%s><%s|" % ((iv.value, role) + pr + coh))
            pname = [norm(x.value) for x in ct.keywords if x.arg == "pname"]
            run.obligation(rid, "%s:%s" % (fname, (pname[0].strip("'\"") if pname else norm(ct.args[0]).strip("'\""))), not problems,
                           key="diagram@%d" % k, message="; ".join(problems[:3]), loc=f.loc(ct),
                           sample={"generator": fname, "interactions": ntrans, "tagged_intervals": len(tagged)})
    if npath < 15:
        raise AnalysisError("only %d pathway constructions tracked (15 confirmed)" % npath)


def rule_A(run, prog):
    rid = "C12-A"
    funcs = []
    lp = prog.cls(LP)
    funcs += list(lp.methods.values())
    ag = prog.module("quantarhei.builders.aggregate_spectroscopy")
    funcs += list(ag.functions.values())
    funcs += [f for f in prog.cls("quantarhei.builders.aggregate_spectroscopy.AggregateSpectroscopy").methods.values()]
    funcs += list(prog.cls("quantarhei.spectroscopy.mocktwodcalculator.MockTwoDResponseCalculator").methods.values())
    tc = prog.cls("quantarhei.spectroscopy.twodcalculator.TwoDResponseCalculator")
    funcs += list(tc.methods.values())
    funcs += [prog.cls(LAB).methods[n] for n in ("__init__", "set_pulse_polarizations")]
    n = apiexist.check_functions(run, rid, prog, funcs, "constructing or evaluating a Liouville pathway")
    if n < 30:
        raise AnalysisError("API scan saw only %d external references" % n)


def _factor_array(prog, f, target_text, vec_name):
    """interpret the stores 'target[k] = ...' in f; returns rank-1 Array"""
    stores = [n for n in walk_no_nested(f.node) if isinstance(n, ast.Assign)
              and isinstance(n.targets[0], ast.Subscript) and norm(n.targets[0].value) == target_text]
    if len(stores) != 3:
        raise AnalysisError("%s: expected three stores into %s, found %d" % (f.short, target_text, len(stores)))
    F = Array.zeros(1, name=target_text)
    vec = Array.opaque(vec_name, 2)
    env = {"self": Obj("self", attrs={"F4n": F}), "F4e": F, "e": vec, "d": vec}
    if target_text.isidentifier():
        env[target_text] = F
    for a_ in walk_no_nested(f.node):
        # locals standing for the array of polarisations (whatever they are called)
        if isinstance(a_, ast.Assign) and len(a_.targets) == 1 and isinstance(a_.targets[0], ast.Name) and norm(a_.value) == "self.e":
            env[a_.targets[0].id] = vec
    it = Interp(prog, lenient=False)
    it.stack.append(f)
    it.exec_body(stores, env)
    it.stack.pop()
    return F, stores


def rule_B(run, prog):
    rid = "C12-B"
    lab = prog.cls(LAB)
    ini = lab.methods["__init__"]
    m4 = [n for n in walk_no_nested(ini.node) if isinstance(n, ast.Assign) and norm(n.targets[0]) == "self.M4"]
    ok = False
    val = None
    if len(m4) == 1:
        v = m4[0].value
        if isinstance(v, ast.BinOp) and isinstance(v.op, ast.Div) and isinstance(v.left, ast.Call) \
                and call_name(v.left) == "array":
            try:
                mat = const_value(v.left.args[0])
                den = const_value(v.right)
                val = [[x / den for x in row] for row in mat]
                want = [[4 / 30, -1 / 30, -1 / 30], [-1 / 30, 4 / 30, -1 / 30], [-1 / 30, -1 / 30, 4 / 30]]
                ok = all(abs(val[i][j] - want[i][j]) < 1e-15 for i in range(3) for j in range(3))
            except Exception:
                ok = False
    run.obligation(rid, "LabSetup.__init__", ok, key="M4",
                   message="the isotropic averaging matrix must be [[4,-1,-1],[-1,4,-1],[-1,-1,4]]/30; found %s" % val,
                   loc=ini.loc(), sample={"M4": val})
    sp = lab.methods["set_pulse_polarizations"]
    # the field factor is computed where the polarisations are set, or on every read by a property F4eM4
    from ..loader import FuncInfo
    # (found by what it does, not by the name of the local: the array that is contracted with self.M4)
    fe, fname = sp, "F4e"
    for st_ in lab.node.body:
        if not isinstance(st_, ast.FunctionDef):
            continue
        for c_ in ast.walk(st_):
            if isinstance(c_, ast.Call) and (call_name(c_) or "").split(".")[-1] == "dot" and len(c_.args) == 2 \
                    and isinstance(c_.args[0], ast.Name) and norm(c_.args[1]) == "self.M4":
                nm_ = c_.args[0].id
                if sum(1 for n_ in walk_no_nested(st_) if isinstance(n_, ast.Assign) and isinstance(n_.targets[0], ast.Subscript)
                       and norm(n_.targets[0].value) == nm_) == 3:
                    fe, fname = FuncInfo(st_.name, lab.module, lab, st_), nm_
    Fe, se = _factor_array(prog, fe, fname, "v")
    bl = prog.cls(LP).methods["build"]
    Fd, sd = _factor_array(prog, bl, "self.F4n", "v")
    matchings = []
    for k in range(3):
        ek = Fe.at("#%d" % k)
        dk = Fd.at("#%d" % k)
        nf = normal(ek - dk)
        run.obligation(rid, "F4e[%d] vs F4n[%d]" % (k, k), not nf, key="same-matching:%d" % k,
                       message="component %d of the field factor and of the dipole factor pair the four "
                               "interactions differently: %s vs %s" % (k, show_normal(normal(ek)), show_normal(normal(dk))),
                       loc=bl.loc(sd[k]), sample={"component": k, "field": show_normal(normal(ek)),
                                                  "dipole": show_normal(normal(dk))})
        matchings.append(_matching(normal(dk)))
    allm = {frozenset([frozenset([0, 1]), frozenset([2, 3])]), frozenset([frozenset([0, 2]), frozenset([1, 3])]),
            frozenset([frozenset([0, 3]), frozenset([1, 2])])}
    ok = None not in matchings and set(matchings) == allm
    run.obligation(rid, "liouville_pathway.build", ok, key="all-matchings",
                   message="the three components must be the three perfect matchings of the four interactions; "
                           "found %s" % [sorted(sorted(p) for p in m_) if m_ else None for m_ in matchings],
                   loc=bl.loc(), sample={"matchings": [sorted(sorted(p) for p in m_) if m_ else None for m_ in matchings]})
    # F4eM4 = F4e . M4 ; prefactor = sign * (F4eM4 . F4n) * rho0 * evolfac
    st = [norm(s) for s in ast.walk(sp.node) if isinstance(s, ast.stmt)]
    stf = [norm(s) for s in ast.walk(fe.node) if isinstance(s, ast.stmt)]
    contracted = ("self.F4eM4 = numpy.dot(%s, self.M4)" % fname) in stf or (("return numpy.dot(%s, self.M4)" % fname) in stf)
    run.obligation(rid, "LabSetup." + fe.name, contracted, key="F4eM4",
                   message="the field factor must be contracted with M4", loc=fe.loc())
    oa = prog.cls(LP).methods["orientational_averaging"]
    asg = [n for n in ast.walk(oa.node) if isinstance(n, ast.Assign) and norm(n.targets[0]) == "self.pref"]
    ok = False
    if asg:
        t = norm(asg[0].value)
        ok = "numpy.dot(lab.F4eM4, self.F4n)" in t and t.startswith("self.sign * ") and "self.aggregate.rho0[n0, n0]" in t
    run.obligation(rid, "liouville_pathway.orientational_averaging", ok, key="prefactor",
                   message="third-order prefactor must be sign * (F4e.M4.F4n) * initial population * evolution factor",
                   loc=oa.loc(), sample={"expression": norm(asg[0].value) if asg else None})
    # polarisation vectors: e[0..2] pulses, e[3] detection
    ok = "self.e[i, :] = pulse_polarizations[i]" in st and "self.e[3, :] = detection_polarization" in st
    run.obligation(rid, "LabSetup.set_pulse_polarizations", ok, key="vectors",
                   message="rows 0-2 of e must be the pulse polarisations and row 3 the detection polarisation",
                   loc=sp.loc())
    sgn = [norm(n) for n in ast.walk(bl.node) if isinstance(n, ast.Assign) and norm(n.targets[0]) == "self.sign"]
    run.obligation(rid, "liouville_pathway.build", "self.sign = numpy.prod(self.sides)" in sgn, key="sign",
                   message="the pathway sign must be the product of the interaction sides", loc=bl.loc())
    return Fe, Fd


def _matching(nf):
    """from the normal form of one component: the pairing of row labels, or None"""
    if len(nf) != 1:
        return None
    (key, nd), c = list(nf.items())[0]
    fs, ds = key
    if nd != 2 or len(fs) != 4 or ds or not (c.re == 1 and c.im == 0):
        return None
    by_dummy = {}
    for name, idx, cj, pw in fs:
        if cj or pw != 1 or len(idx) != 2 or not idx[0].startswith("#") or not idx[1].startswith("~"):
            return None
        by_dummy.setdefault(idx[1], []).append(int(idx[0][1:]))
    pairs = [frozenset(v) for v in by_dummy.values()]
    if len(pairs) != 2 or any(len(p) != 2 for p in pairs):
        return None
    if set().union(*pairs) != {0, 1, 2, 3}:
        return None
    return frozenset(pairs)


def rule_C(run, prog, Fe, Fd):
    rid = "C12-C"
    for name, F in (("F4e", Fe), ("F4n", Fd)):
        for k in range(3):
            nf = normal(F.at("#%d" % k))
            mt = _matching(nf)
            run.obligation(rid, "%s[%d]" % (name, k), mt is not None, key="two-scalar-products",
                           message="component %d of %s is not a product of two scalar products covering the four "
                                   "vectors exactly once (needed for rotation invariance and fourth-power scaling): %s"
                           % (k, name, show_normal(nf)), loc="", sample={"factor": "%s[%d]" % (name, k),
                                                                        "normal_form": show_normal(nf)})
