"""Self-test of the checkers: apply known breaking edits ("mutants") and
behaviour-preserving edits ("twins") to a scratch copy of the package and
confirm that the property's check fires on the former (naming the rule) and
stays silent on the latter.  This tests the *checker*; the verdict on /repo
never depends on it.  Scratch copies live in a mkdtemp directory that is
removed afterwards.
"""
import concurrent.futures
import importlib
import io
import json
import os
import shutil
import sys
import tempfile
import time
import contextlib

from . import REPO, PKG
from .report import EVID


def _copy_pkg(dst):
    src = os.path.join(REPO, PKG)
    for dp, dns, fns in os.walk(src):
        dns[:] = [d for d in dns if d != "__pycache__"]
        rel = os.path.relpath(dp, REPO)
        os.makedirs(os.path.join(dst, rel), exist_ok=True)
        for fn in fns:
            if fn.endswith(".py"):
                shutil.copyfile(os.path.join(dp, fn), os.path.join(dst, rel, fn))


def _run_one(args):
    pid, name, kind, edits, expect_rule = args
    from .main import run_property
    tmp = tempfile.mkdtemp(prefix="qvself_")
    try:
        _copy_pkg(tmp)
        for relpath, old, new, count in edits:
            path = os.path.join(tmp, relpath)
            with open(path, encoding="utf-8", errors="replace") as fh:
                s = fh.read()
            if s.count(old) != count:
                return (name, kind, "skipped", "anchor text occurs %d times, expected %d in %s"
                        % (s.count(old), count, relpath))
            s = s.replace(old, new)
            with open(path, "w", encoding="utf-8") as fh:
                fh.write(s)
        if os.environ.get("QV_SELFTEST_ALPHA"):
            # additionally rename every local variable of the files the rules know (behaviour
            # preserving): mutants must still be killed, twins must still be silent
            from . import alpha, refnames
            for rel in refnames.load_ref():
                path = os.path.join(tmp, rel)
                if os.path.exists(path):
                    with open(path, encoding="utf-8", errors="replace") as fh:
                        src = fh.read()
                    try:
                        new, _, _ = alpha.rename_source(src)
                    except SyntaxError:
                        continue
                    with open(path, "w", encoding="utf-8") as fh:
                        fh.write(new)
        os.environ["QV_NO_EVIDENCE"] = "1"
        buf = io.StringIO()
        with contextlib.redirect_stdout(buf), contextlib.redirect_stderr(buf):
            rc = run_property(pid, "quick", repo=tmp)
        out = buf.getvalue()
        if kind == "mutant":
            if rc == 1 and (expect_rule is None or ("rule=%s" % expect_rule) in out):
                return (name, kind, "killed", expect_rule or "")
            if rc == 2:
                return (name, kind, "analysis-error", out.strip().splitlines()[-1][:300] if out.strip() else "")
            return (name, kind, "SURVIVED", "rc=%d %s" % (rc, out[-400:]))
        else:
            if rc == 0:
                return (name, kind, "silent", "")
            return (name, kind, "FALSE-ALARM", "rc=%d %s" % (rc, out[-600:]))
    finally:
        shutil.rmtree(tmp, ignore_errors=True)


def cases_for(pid):
    try:
        mod = importlib.import_module("qv.selfcases.%s" % pid.lower())
    except ImportError:
        return []
    return mod.CASES


def run_for(pid, attach_evidence=False, verbose=True, alpha=False):
    """alpha=True: every case is additionally run on a copy in which all local variables of the
    files known to the rules are renamed; an extra twin consisting of the renaming alone is added."""
    cases = cases_for(pid)
    if alpha:
        os.environ["QV_SELFTEST_ALPHA"] = "1"
        cases = list(cases) + [{"name": "all local variables renamed", "kind": "twin", "edits": []}]
    else:
        os.environ.pop("QV_SELFTEST_ALPHA", None)
    if not cases:
        if verbose:
            print("selftest %s: no cases" % pid)
        return 0
    t0 = time.time()
    jobs = [(pid, c["name"], c["kind"], c["edits"], c.get("rule")) for c in cases]
    with concurrent.futures.ProcessPoolExecutor(max_workers=min(16, len(jobs))) as ex:
        results = list(ex.map(_run_one, jobs))
    bad = 0
    summary = {"killed": 0, "silent": 0, "skipped": 0, "analysis-error": 0, "SURVIVED": 0,
               "FALSE-ALARM": 0}
    for name, kind, status, info in results:
        summary[status] = summary.get(status, 0) + 1
        if verbose:
            print("selftest %s %-7s %-16s %s %s" % (pid, kind, status, name, info[:200]))
        if status in ("SURVIVED", "FALSE-ALARM"):
            bad += 1
    print("selftest %s%s: %s in %.1fs" % (pid, " (alpha-renamed)" if alpha else "", json.dumps(summary),
                                          time.time() - t0))
    os.environ.pop("QV_SELFTEST_ALPHA", None)
    if attach_evidence:
        path = os.path.join(EVID, "%s.json" % pid)
        if os.path.exists(path):
            with open(path) as fh:
                ev = json.load(fh)
            ev["coverage"]["selftest_alpha_renamed" if alpha else "selftest"] = {
                "mutants_killed": summary["killed"],
                "mutants_exit2": summary["analysis-error"],
                "twins_silent": summary["silent"],
                "skipped": summary["skipped"],
                "failed": bad,
                "cases": [{"name": n, "kind": k, "status": s} for n, k, s, _ in results],
            }
            ev["wall_s"] = round(ev.get("wall_s", 0) + time.time() - t0, 3)
            with open(path, "w") as fh:
                json.dump(ev, fh, indent=1)
    if bad:
        print("SELFTEST-FAILED property=%s (%d case(s)); the checker, not /repo, is at fault" % (pid, bad))
        return 2
    return 0


def main(args):
    pids = args or ["C%02d" % i for i in range(1, 21)]
    rc = 0
    alpha = "--alpha" in pids
    pids = [p for p in pids if p != "--alpha"] or ["C%02d" % i for i in range(1, 21)]
    for pid in pids:
        rc = max(rc, run_for(pid, alpha=alpha))
    return rc
