"""Effect analysis: which functions write attributes / elements of their
parameters (or of objects held in input-carrying attributes of self).

Summaries are computed bottom-up over the resolved call graph with an
inlining bound.  Calls on unknown receivers are resolved by method name over
all classes (may-call over-approximation: can only add effects; each reported
effect is confirmed by reading before a rule is armed, and exceptions are
frozen one by one with a reason).
"""
import ast

from .loader import norm, walk_no_nested, call_name, FuncInfo, ClassInfo

INPLACE_METHODS = {"fill", "sort", "resize", "put", "itemset", "setfield", "append", "extend",
                   "pop", "clear", "update", "remove", "insert"}


def base_chain(expr):
    """('self', 'Hamiltonian', 'data') for self.Hamiltonian.data[...]; None if
    not rooted at a Name."""
    parts = []
    e = expr
    while True:
        if isinstance(e, ast.Subscript):
            e = e.value
        elif isinstance(e, ast.Attribute):
            parts.append(e.attr)
            e = e.value
        elif isinstance(e, ast.Name):
            parts.append(e.id)
            return tuple(reversed(parts))
        elif isinstance(e, ast.Call):
            return None
        else:
            return None


class Effects:
    def __init__(self, prog, depth=3):
        self.prog = prog
        self.depth = depth
        self._summ = {}

    # ------------------------------------------------------------------
    def aliases(self, func, roots):
        """local names bound (flow-insensitively) to an expression rooted at
        one of ``roots`` (tuples like ('ham',) or ('self','Hamiltonian')).
        Returns name -> root tuple.  Only plain aliasing assignments count
        (x = root, x = root.attr chains that are themselves roots)."""
        out = {}
        changed = True
        while changed:
            changed = False
            for n in walk_no_nested(func.node):
                if isinstance(n, ast.Assign) and len(n.targets) == 1 and isinstance(n.targets[0], ast.Name):
                    ch = base_chain(n.value) if isinstance(n.value, (ast.Name, ast.Attribute)) else None
                    if ch is None:
                        continue
                    r = self.root_of(ch, roots, out)
                    # alias only when the whole value IS the root object (not a field of it)
                    if r is not None and (ch == r or (ch[0] in out and len(ch) == 1)):
                        nm = n.targets[0].id
                        if nm not in out and (nm,) not in roots:
                            out[nm] = r
                            changed = True
        return out

    def field_aliases(self, func, roots):
        """local names bound to a *part* of an input object (x = root.attr[.attr...], no call in between):
        an element store, an in-place operator or an in-place method on x changes the input.  A name
        counts only when every assignment to it in the function is of that form (otherwise it may have
        been rebound to a fresh object first).  Returns name -> root tuple."""
        whole = self.aliases(func, roots)
        cand, other = {}, set()
        for n in walk_no_nested(func.node):
            tg = []
            if isinstance(n, ast.Assign):
                tg = [t for t in n.targets]
            elif isinstance(n, (ast.For, ast.AugAssign)):
                tg = [n.target]
            elif isinstance(n, ast.With):
                tg = [it.optional_vars for it in n.items if it.optional_vars is not None]
            for t in tg:
                for e in (t.elts if isinstance(t, (ast.Tuple, ast.List)) else [t]):
                    if not isinstance(e, ast.Name):
                        continue
                    if isinstance(n, ast.Assign) and len(n.targets) == 1 and isinstance(n.value, ast.Attribute):
                        ch = base_chain(n.value)
                        r = self.root_of(ch, roots, whole)
                        if r is not None and ch is not None and ch != r and not (ch[0] in whole and len(ch) == 1):
                            cand.setdefault(e.id, r)
                            continue
                    if isinstance(n, ast.AugAssign):
                        continue      # x op= ... keeps the binding (in place for arrays)
                    other.add(e.id)
        return {k: v for k, v in cand.items() if k not in other and (k,) not in roots}

    def root_of(self, chain, roots, aliases):
        if chain is None:
            return None
        if chain[0] in aliases and (chain[0],) not in roots:
            return aliases[chain[0]]
        best = None
        for r in roots:
            if chain[:len(r)] == r:
                if best is None or len(r) > len(best):
                    best = r
        return best

    # ------------------------------------------------------------------
    def direct_effects(self, func, roots):
        """List of (root, kind, node, text) for stores / in-place operations on
        objects rooted at ``roots`` inside ``func`` (no call following)."""
        al = self.aliases(func, roots)
        fal = self.field_aliases(func, roots)
        out = []
        for n in walk_no_nested(func.node):
            # effects through a local name bound to a part of an input (KI = self.sbi.KK; KI[i] = ...)
            if isinstance(n, (ast.Assign, ast.AugAssign)):
                for t in (n.targets if isinstance(n, ast.Assign) else [n.target]):
                    for e in (t.elts if isinstance(t, ast.Tuple) else [t]):
                        base = e
                        sub = False
                        while isinstance(base, ast.Subscript):
                            base = base.value
                            sub = True
                        if isinstance(base, ast.Name) and base.id in fal and (sub or isinstance(n, ast.AugAssign)):
                            out.append((fal[base.id], "store", n, "%s  [%s is bound to a part of the input]"
                                        % (norm(n)[:80], base.id)))
            if isinstance(n, ast.Call) and isinstance(n.func, ast.Attribute) and n.func.attr in INPLACE_METHODS \
                    and isinstance(n.func.value, ast.Name) and n.func.value.id in fal:
                out.append((fal[n.func.value.id], "inplace-method", n, norm(n)[:100]))
            targets = []
            if isinstance(n, ast.Assign):
                targets = [(t, "store") for t in n.targets]
            elif isinstance(n, ast.AugAssign):
                targets = [(n.target, "augassign")]
            elif isinstance(n, ast.Delete):
                targets = [(t, "delete") for t in n.targets]
            for t, kind in targets:
                elts = t.elts if isinstance(t, ast.Tuple) else [t]
                for e in elts:
                    if isinstance(e, ast.Name):
                        if kind == "augassign" and e.id in al:
                            # x += ... on an alias of an input object mutates it in place
                            # only for arrays; aliases of whole objects are not arrays
                            pass
                        continue
                    ch = base_chain(e)
                    r = self.root_of(ch, roots, al)
                    if r is None:
                        continue
                    # a store to self.<root attr> itself (rebinding the holder) is an effect on self, not on the input
                    if ch == r and not isinstance(e, ast.Subscript):
                        continue
                    out.append((r, kind, n, norm(n)[:100]))
            if isinstance(n, ast.Call) and isinstance(n.func, ast.Attribute) and n.func.attr in INPLACE_METHODS:
                ch = base_chain(n.func.value)
                r = self.root_of(ch, roots, al)
                if r is not None and ch != r:
                    out.append((r, "inplace-method", n, norm(n)[:100]))
        return out

    # ------------------------------------------------------------------
    def self_writes(self, func, depth=None, _seen=None):
        """Attributes of self (as chains) written by ``func`` including writes
        made by self-method calls (bounded depth)."""
        depth = self.depth if depth is None else depth
        key = (func.qualname, depth)
        if key in self._summ:
            return self._summ[key]
        _seen = _seen or set()
        if func.qualname in _seen:
            return set()
        _seen = _seen | {func.qualname}
        out = set()
        for r, kind, n, text in self.direct_effects(func, [("self",)]):
            ch = base_chain(n.targets[0] if isinstance(n, ast.Assign) else
                            (n.target if isinstance(n, ast.AugAssign) else n.targets[0])) \
                if not isinstance(n, ast.Call) else base_chain(n.func.value)
            if ch and ch[0] == "self" and len(ch) > 1:
                out.add(ch[1])
        if depth > 0 and func.cls is not None:
            for c in [x for x in walk_no_nested(func.node) if isinstance(x, ast.Call)]:
                if isinstance(c.func, ast.Attribute) and isinstance(c.func.value, ast.Name) and c.func.value.id == "self":
                    t = self.prog.find_method(func.cls, c.func.attr)
                    if t is not None:
                        out |= self.self_writes(t, depth - 1, _seen)
        self._summ[key] = out
        return out

    def param_effects(self, func, depth=None, _seen=None):
        """{param name: [descriptions]} for parameters (not self) whose object is
        written by ``func`` directly or through calls (bounded depth)."""
        depth = self.depth if depth is None else depth
        _seen = _seen or set()
        if func.qualname in _seen:
            return {}
        _seen = _seen | {func.qualname}
        params = [a.arg for a in func.node.args.args if a.arg not in ("self", "cls")]
        roots = [(p,) for p in params]
        out = {}
        for r, kind, n, text in self.direct_effects(func, roots):
            out.setdefault(r[0], []).append("%s: %s" % (func.loc(n), text))
        if depth > 0:
            al = self.aliases(func, roots)
            for c in [x for x in walk_no_nested(func.node) if isinstance(x, ast.Call)]:
                for t in self.prog.resolve_call(func, c, may=False):
                    te = self.param_effects(t, depth - 1, _seen)
                    if not te:
                        continue
                    ps = [a.arg for a in t.node.args.args]
                    if t.cls is not None and ps and ps[0] in ("self", "cls"):
                        ps = ps[1:]
                    for k, a in enumerate(c.args):
                        if k < len(ps) and ps[k] in te and isinstance(a, ast.Name):
                            r = self.root_of((a.id,), roots, al)
                            if r is not None:
                                out.setdefault(r[0], []).append("%s: via %s(%s)" % (func.loc(c), t.short, ps[k]))
        return out


# ----------------------------------------------------------------------
def shared_operator_storage(prog, cls):
    """Objects built from an array that stays reachable as a working attribute of self.

    Finds `self.<obj> = Ctor(data=V)` (or `Ctor(V)`/`data=self.A`) where the array V is also kept as
    `self.<A>` (same function: `self.A = V`, or V is `self.A`), and reports for each such pair whether
    any method of the class, its bases or its subclasses writes `self.A` element-wise / in place.
    Rebinding `self.A = new array` is harmless (the object keeps the old array); an in-place write
    changes the handed-out object behind its back.
    Returns [(FuncInfo, assign node, obj attr, array attr, [in-place writer (FuncInfo, node)])]."""
    universe = [c for m_ in prog.modules.values() for c in m_.classes.values()
                if c is cls or cls in prog.mro(c) or c in [b for b in prog.mro(cls) if b is not None]]
    writers = {}
    for c in universe:
        for f in c.methods.values():
            for n in walk_no_nested(f.node):
                tg = []
                if isinstance(n, ast.Assign):
                    tg = n.targets
                elif isinstance(n, ast.AugAssign):
                    tg = [n.target]
                for t in tg:
                    base, sub = t, False
                    while isinstance(base, ast.Subscript):
                        base, sub = base.value, True
                    if isinstance(base, ast.Attribute) and isinstance(base.value, ast.Name) and base.value.id == "self" \
                            and (sub or isinstance(n, ast.AugAssign)):
                        writers.setdefault(base.attr, []).append((f, n))
    out = []
    for c in universe:
        for f in c.methods.values():
            kept = {}     # local name -> self attr it is stored under
            for n in walk_no_nested(f.node):
                if isinstance(n, ast.Assign) and isinstance(n.value, ast.Name):
                    for t in n.targets:
                        if isinstance(t, ast.Attribute) and isinstance(t.value, ast.Name) and t.value.id == "self":
                            kept[n.value.id] = t.attr
            for n in walk_no_nested(f.node):
                if not (isinstance(n, ast.Assign) and isinstance(n.value, ast.Call)):
                    continue
                objattr = [t.attr for t in n.targets if isinstance(t, ast.Attribute) and isinstance(t.value, ast.Name)
                           and t.value.id == "self"]
                if not objattr:
                    continue
                cands = [k.value for k in n.value.keywords if k.arg == "data"]
                for v in cands:
                    arr = None
                    if isinstance(v, ast.Name) and v.id in kept:
                        arr = kept[v.id]
                    elif isinstance(v, ast.Attribute) and isinstance(v.value, ast.Name) and v.value.id == "self":
                        arr = v.attr
                    if arr is not None:
                        out.append((f, n, objattr[0], arr, writers.get(arr, [])))
    return out
