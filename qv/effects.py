"""Effect analysis: which functions write attributes / elements of their
parameters (or of objects held in input-carrying attributes of self).

Summaries are computed bottom-up over the resolved call graph with an
inlining bound.  Calls on unknown receivers are resolved by method name over
all classes (may-call over-approximation: can only add effects; each reported
effect is confirmed by reading before a rule is armed, and exceptions are
frozen one by one with a reason).
"""
import ast

from .loader import norm, walk_no_nested, call_name, FuncInfo, ClassInfo

INPLACE_METHODS = {"fill", "sort", "resize", "put", "itemset", "setfield", "append", "extend",
                   "pop", "clear", "update", "remove", "insert"}


def base_chain(expr):
    """('self', 'Hamiltonian', 'data') for self.Hamiltonian.data[...]; None if
    not rooted at a Name."""
    parts = []
    e = expr
    while True:
        if isinstance(e, ast.Subscript):
            e = e.value
        elif isinstance(e, ast.Attribute):
            parts.append(e.attr)
            e = e.value
        elif isinstance(e, ast.Name):
            parts.append(e.id)
            return tuple(reversed(parts))
        elif isinstance(e, ast.Call):
            return None
        else:
            return None


class Effects:
    def __init__(self, prog, depth=3):
        self.prog = prog
        self.depth = depth
        self._summ = {}

    # ------------------------------------------------------------------
    def aliases(self, func, roots):
        """local names bound (flow-insensitively) to an expression rooted at
        one of ``roots`` (tuples like ('ham',) or ('self','Hamiltonian')).
        Returns name -> root tuple.  Only plain aliasing assignments count
        (x = root, x = root.attr chains that are themselves roots)."""
        out = {}
        changed = True
        while changed:
            changed = False
            for n in walk_no_nested(func.node):
                if isinstance(n, ast.Assign) and len(n.targets) == 1 and isinstance(n.targets[0], ast.Name):
                    ch = base_chain(n.value) if isinstance(n.value, (ast.Name, ast.Attribute)) else None
                    if ch is None:
                        continue
                    r = self.root_of(ch, roots, out)
                    # alias only when the whole value IS the root object (not a field of it)
                    if r is not None and (ch == r or (ch[0] in out and len(ch) == 1)):
                        nm = n.targets[0].id
                        if nm not in out and (nm,) not in roots:
                            out[nm] = r
                            changed = True
        return out

    def root_of(self, chain, roots, aliases):
        if chain is None:
            return None
        if chain[0] in aliases and (chain[0],) not in roots:
            return aliases[chain[0]]
        best = None
        for r in roots:
            if chain[:len(r)] == r:
                if best is None or len(r) > len(best):
                    best = r
        return best

    # ------------------------------------------------------------------
    def direct_effects(self, func, roots):
        """List of (root, kind, node, text) for stores / in-place operations on
        objects rooted at ``roots`` inside ``func`` (no call following)."""
        al = self.aliases(func, roots)
        out = []
        for n in walk_no_nested(func.node):
            targets = []
            if isinstance(n, ast.Assign):
                targets = [(t, "store") for t in n.targets]
            elif isinstance(n, ast.AugAssign):
                targets = [(n.target, "augassign")]
            elif isinstance(n, ast.Delete):
                targets = [(t, "delete") for t in n.targets]
            for t, kind in targets:
                elts = t.elts if isinstance(t, ast.Tuple) else [t]
                for e in elts:
                    if isinstance(e, ast.Name):
                        if kind == "augassign" and e.id in al:
                            # x += ... on an alias of an input object mutates it in place
                            # only for arrays; aliases of whole objects are not arrays
                            pass
                        continue
                    ch = base_chain(e)
                    r = self.root_of(ch, roots, al)
                    if r is None:
                        continue
                    # a store to self.<root attr> itself (rebinding the holder) is an effect on self, not on the input
                    if ch == r and not isinstance(e, ast.Subscript):
                        continue
                    out.append((r, kind, n, norm(n)[:100]))
            if isinstance(n, ast.Call) and isinstance(n.func, ast.Attribute) and n.func.attr in INPLACE_METHODS:
                ch = base_chain(n.func.value)
                r = self.root_of(ch, roots, al)
                if r is not None and ch != r:
                    out.append((r, "inplace-method", n, norm(n)[:100]))
        return out

    # ------------------------------------------------------------------
    def self_writes(self, func, depth=None, _seen=None):
        """Attributes of self (as chains) written by ``func`` including writes
        made by self-method calls (bounded depth)."""
        depth = self.depth if depth is None else depth
        key = (func.qualname, depth)
        if key in self._summ:
            return self._summ[key]
        _seen = _seen or set()
        if func.qualname in _seen:
            return set()
        _seen = _seen | {func.qualname}
        out = set()
        for r, kind, n, text in self.direct_effects(func, [("self",)]):
            ch = base_chain(n.targets[0] if isinstance(n, ast.Assign) else
                            (n.target if isinstance(n, ast.AugAssign) else n.targets[0])) \
                if not isinstance(n, ast.Call) else base_chain(n.func.value)
            if ch and ch[0] == "self" and len(ch) > 1:
                out.add(ch[1])
        if depth > 0 and func.cls is not None:
            for c in [x for x in walk_no_nested(func.node) if isinstance(x, ast.Call)]:
                if isinstance(c.func, ast.Attribute) and isinstance(c.func.value, ast.Name) and c.func.value.id == "self":
                    t = self.prog.find_method(func.cls, c.func.attr)
                    if t is not None:
                        out |= self.self_writes(t, depth - 1, _seen)
        self._summ[key] = out
        return out

    def param_effects(self, func, depth=None, _seen=None):
        """{param name: [descriptions]} for parameters (not self) whose object is
        written by ``func`` directly or through calls (bounded depth)."""
        depth = self.depth if depth is None else depth
        _seen = _seen or set()
        if func.qualname in _seen:
            return {}
        _seen = _seen | {func.qualname}
        params = [a.arg for a in func.node.args.args if a.arg not in ("self", "cls")]
        roots = [(p,) for p in params]
        out = {}
        for r, kind, n, text in self.direct_effects(func, roots):
            out.setdefault(r[0], []).append("%s: %s" % (func.loc(n), text))
        if depth > 0:
            al = self.aliases(func, roots)
            for c in [x for x in walk_no_nested(func.node) if isinstance(x, ast.Call)]:
                for t in self.prog.resolve_call(func, c, may=False):
                    te = self.param_effects(t, depth - 1, _seen)
                    if not te:
                        continue
                    ps = [a.arg for a in t.node.args.args]
                    if t.cls is not None and ps and ps[0] in ("self", "cls"):
                        ps = ps[1:]
                    for k, a in enumerate(c.args):
                        if k < len(ps) and ps[k] in te and isinstance(a, ast.Name):
                            r = self.root_of((a.id,), roots, al)
                            if r is not None:
                                out.setdefault(r[0], []).append("%s: via %s(%s)" % (func.loc(c), t.short, ps[k]))
        return out
