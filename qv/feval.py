"""Finite-configuration evaluation of small integer/combinatorial routines.

Some clauses of the properties are about routines whose behaviour is decided by a finite
combinatorial configuration (which sites of two occupation signatures differ, which branch of
a decision tree is taken) while the physical quantities only ride along as opaque factors.
This module interprets the *source* of such a routine (the AST taken from /repo on every run,
nothing is imported or executed) over concrete small integers, tuples and lists, with
symbolic atoms for the opaque quantities, so that a rule can enumerate every configuration up
to a stated bound and compare the result with the specification written in the rule.

The vocabulary is deliberately small; anything outside it raises Unsupported, which the rules
turn into an analysis error (exit 2), never into a pass.
"""
import ast
import math

from .loader import norm


class Unsupported(Exception):
    pass


class Raised(Exception):
    """the interpreted code executed a raise statement"""


class _Break(Exception):
    pass


class _Continue(Exception):
    pass


class _Return(Exception):
    def __init__(self, value):
        self.value = value


class Sym:
    """polynomial in opaque atoms: {sorted tuple of atoms: coefficient}; Sym(c, atoms) is a monomial"""

    def __init__(self, coef=1.0, atoms=(), terms=None):
        if terms is not None:
            self.terms = {k: v for k, v in terms.items() if v != 0.0}
        else:
            self.terms = {tuple(sorted(atoms)): float(coef)} if float(coef) != 0.0 else {}

    @property
    def coef(self):
        if not self.terms:
            return 0.0
        if len(self.terms) == 1:
            return next(iter(self.terms.values()))
        raise Unsupported("coefficient of a sum")

    @property
    def atoms(self):
        if not self.terms:
            return ()
        if len(self.terms) == 1:
            return next(iter(self.terms.keys()))
        raise Unsupported("atoms of a sum")

    def __mul__(self, o):
        if isinstance(o, (int, float)):
            return Sym(terms={k: v * o for k, v in self.terms.items()})
        if isinstance(o, Sym):
            out = {}
            for k1, v1 in self.terms.items():
                for k2, v2 in o.terms.items():
                    k = tuple(sorted(k1 + k2))
                    out[k] = out.get(k, 0.0) + v1 * v2
            return Sym(terms=out)
        return NotImplemented
    __rmul__ = __mul__

    def __add__(self, o):
        o = as_sym(o)
        out = dict(self.terms)
        for k, v in o.terms.items():
            out[k] = out.get(k, 0.0) + v
        return Sym(terms=out)
    __radd__ = __add__

    def __sub__(self, o):
        return self + (as_sym(o) * -1.0)

    def __rsub__(self, o):
        return as_sym(o) - self

    def __neg__(self):
        return self * -1.0

    def same(self, o):
        o = as_sym(o)
        keys = set(self.terms) | set(o.terms)
        return all(math.isclose(self.terms.get(k, 0.0), o.terms.get(k, 0.0), rel_tol=1e-12, abs_tol=1e-13)
                   for k in keys)

    def __repr__(self):
        if not self.terms:
            return "0"
        return " + ".join("%.6g*%s" % (v, "*".join(k) or "1") for k, v in sorted(self.terms.items()))


def as_sym(v):
    return v if isinstance(v, Sym) else Sym(v)


class SymArr:
    """opaque array; symmetric=True identifies [i,j] with [j,i]"""

    def __init__(self, name, symmetric=False):
        self.name = name
        self.symmetric = symmetric

    def at(self, idx):
        idx = tuple(idx) if isinstance(idx, (tuple, list)) else (idx,)
        if self.symmetric:
            idx = tuple(sorted(idx))
        return Sym(1.0, ("%s[%s]" % (self.name, ",".join(str(i) for i in idx)),))


class Vec(list):
    """numpy.array of small integers"""

    def __sub__(self, o):
        return Vec(a - b for a, b in zip(self, o))

    def __add__(self, o):
        if isinstance(o, Vec):
            return Vec(a + b for a, b in zip(self, o))
        return Vec(list.__add__(self, o))


class Mat(list):
    """two-dimensional numpy array of small integers / opaque values: list of Vec rows"""

    @property
    def shape(self):
        return (len(self), len(self[0]) if self else 0)

    @property
    def size(self):
        return len(self) * (len(self[0]) if self else 0)

    @property
    def ndim(self):
        return 2


def _is_full_slice(n):
    return isinstance(n, ast.Slice) and n.lower is None and n.upper is None and n.step is None


class Stub:
    def __init__(self, kind, **attrs):
        self.kind = kind
        self.attrs = attrs
        self.methods = {}


class Evaluator:
    def __init__(self, max_steps=200000):
        self.steps = 0
        self.max_steps = max_steps

    # ------------------------------------------------------------------
    def call_function(self, fnode, args):
        env = dict(args)
        try:
            self.block(fnode.body, env)
        except _Return as r:
            return r.value
        return None

    def block(self, stmts, env):
        for s in stmts:
            self.stmt(s, env)

    def tick(self):
        self.steps += 1
        if self.steps > self.max_steps:
            raise Unsupported("step budget exhausted")

    def stmt(self, s, env):
        self.tick()
        if isinstance(s, ast.Expr):
            if isinstance(s.value, ast.Constant):
                return
            self.ev(s.value, env)
        elif isinstance(s, ast.Assign):
            v = self.ev(s.value, env)
            for t in s.targets:
                self.store(t, v, env)
        elif isinstance(s, ast.AugAssign):
            cur = self.ev(ast.copy_location(_as_load(s.target), s.target), env)
            v = self.binop(s.op, cur, self.ev(s.value, env))
            self.store(s.target, v, env)
        elif isinstance(s, ast.If):
            self.block(s.body if self.truth(self.ev(s.test, env)) else s.orelse, env)
        elif isinstance(s, ast.For):
            it = self.ev(s.iter, env)
            broke = False
            for x in list(it):
                self.store(s.target, x, env)
                try:
                    self.block(s.body, env)
                except _Break:
                    broke = True
                    break
                except _Continue:
                    continue
            if not broke:
                self.block(s.orelse, env)
        elif isinstance(s, ast.While):
            while self.truth(self.ev(s.test, env)):
                self.tick()
                try:
                    self.block(s.body, env)
                except _Break:
                    break
                except _Continue:
                    continue
        elif isinstance(s, ast.Break):
            raise _Break()
        elif isinstance(s, ast.Continue):
            raise _Continue()
        elif isinstance(s, ast.Return):
            raise _Return(self.ev(s.value, env) if s.value is not None else None)
        elif isinstance(s, (ast.Pass, ast.Import, ast.ImportFrom, ast.Global)):
            return
        elif isinstance(s, ast.Raise):
            raise Raised(norm(s)[:80])
        else:
            raise Unsupported("statement %s" % norm(s)[:60])

    def store(self, t, v, env):
        if isinstance(t, ast.Name):
            env[t.id] = v
        elif isinstance(t, (ast.Tuple, ast.List)):
            vs = list(v)
            if len(vs) != len(t.elts):
                raise Unsupported("unpacking mismatch")
            for tt, vv in zip(t.elts, vs):
                self.store(tt, vv, env)
        elif isinstance(t, ast.Attribute):
            base = self.ev(t.value, env)
            if not isinstance(base, Stub):
                raise Unsupported("attribute store %s" % norm(t))
            base.attrs[t.attr] = v
        elif isinstance(t, ast.Subscript) and _is_full_slice(t.slice):
            base = self.ev(t.value, env)
            if not isinstance(base, list):
                raise Unsupported("slice store into %s" % norm(t.value))
            vals = list(v) if isinstance(v, (list, tuple)) else [v] * len(base)
            if len(vals) != len(base):
                raise Unsupported("slice store of a different length")
            base[:] = vals
        elif isinstance(t, ast.Subscript) and isinstance(t.slice, ast.Tuple) and len(t.slice.elts) == 2:
            base = self.ev(t.value, env)
            if not isinstance(base, Mat):
                raise Unsupported("two-index store into %s" % norm(t.value))
            r, c = t.slice.elts
            if _is_full_slice(c) and not isinstance(r, ast.Slice):
                row = base[self.ev(r, env)]
                vals = list(v) if isinstance(v, (list, tuple)) else [v] * len(row)
                row[:] = vals
            elif not isinstance(r, ast.Slice) and not isinstance(c, ast.Slice):
                base[self.ev(r, env)][self.ev(c, env)] = v
            else:
                raise Unsupported("store %s" % norm(t))
        elif isinstance(t, ast.Subscript):
            base = self.ev(t.value, env)
            idx = self.ev(t.slice, env)
            if isinstance(base, list) and isinstance(idx, int):
                base[idx] = v
            elif isinstance(base, dict):
                base[idx] = v
            else:
                raise Unsupported("store into %s" % norm(t))
        else:
            raise Unsupported("store target %s" % norm(t))

    @staticmethod
    def truth(v):
        if isinstance(v, Sym):
            raise Unsupported("branch on an opaque quantity")
        return bool(v)

    # ------------------------------------------------------------------
    def binop(self, op, a, b):
        if isinstance(op, ast.Mult):
            if isinstance(a, Sym) or isinstance(b, Sym):
                r = as_sym(a) * as_sym(b)
                return r
            return a * b
        if isinstance(a, Sym) or isinstance(b, Sym):
            if isinstance(op, ast.Div) and not isinstance(b, Sym):
                return as_sym(a) * (1.0 / b)
            if isinstance(op, ast.Add):
                return as_sym(a) + as_sym(b)
            if isinstance(op, ast.Sub):
                return as_sym(a) - as_sym(b)
            raise Unsupported("arithmetic other than sums and products on opaque quantities")
        if isinstance(op, ast.Add):
            return a + b
        if isinstance(op, ast.Sub):
            return a - b
        if isinstance(op, ast.Div):
            return a / b
        if isinstance(op, ast.FloorDiv):
            return a // b
        if isinstance(op, ast.Mod):
            return a % b
        if isinstance(op, ast.Pow):
            return a ** b
        raise Unsupported("operator %s" % type(op).__name__)

    def ev(self, e, env):
        self.tick()
        if isinstance(e, ast.Constant):
            return e.value
        if isinstance(e, ast.Name):
            if e.id in env:
                return env[e.id]
            if e.id in ("numpy", "np"):
                return "<numpy>"
            if e.id in ("True", "False", "None"):
                return {"True": True, "False": False, "None": None}[e.id]
            return ("<global>", e.id)
        if isinstance(e, (ast.Tuple,)):
            return tuple(self.ev(x, env) for x in e.elts)
        if isinstance(e, ast.List):
            return [self.ev(x, env) for x in e.elts]
        if isinstance(e, ast.Attribute):
            b = self.ev(e.value, env)
            if isinstance(b, Stub):
                if e.attr in b.attrs:
                    return b.attrs[e.attr]
                if e.attr in b.methods:
                    return ("<method>", b, e.attr)
                if b.kind == "ndarray" and "shape" in b.attrs and e.attr in ("size", "ndim"):
                    shp = b.attrs["shape"]
                    if e.attr == "ndim":
                        return len(shp)
                    r_ = 1
                    for x_ in shp:
                        r_ *= x_
                    return r_
                raise Unsupported("attribute %s of %s" % (e.attr, b.kind))
            if b == "<numpy>":
                return ("<numpy>", e.attr)
            if isinstance(b, Mat) and e.attr in ("shape", "size", "ndim"):
                return getattr(b, e.attr)
            if isinstance(b, list) and e.attr == "shape":
                return (len(b),)
            raise Unsupported("attribute %s" % norm(e))
        if isinstance(e, ast.BinOp):
            return self.binop(e.op, self.ev(e.left, env), self.ev(e.right, env))
        if isinstance(e, ast.UnaryOp):
            v = self.ev(e.operand, env)
            if isinstance(e.op, ast.Not):
                return not self.truth(v)
            if isinstance(e.op, ast.USub):
                return -v
            if isinstance(e.op, ast.UAdd):
                return v
            raise Unsupported("unary operator")
        if isinstance(e, ast.BoolOp):
            if isinstance(e.op, ast.And):
                v = True
                for x in e.values:
                    v = self.ev(x, env)
                    if not self.truth(v):
                        return v
                return v
            v = False
            for x in e.values:
                v = self.ev(x, env)
                if self.truth(v):
                    return v
            return v
        if isinstance(e, ast.Compare):
            left = self.ev(e.left, env)
            for op, c in zip(e.ops, e.comparators):
                right = self.ev(c, env)
                if isinstance(left, Sym) or isinstance(right, Sym):
                    raise Unsupported("comparison of an opaque quantity")
                r = {ast.Eq: lambda a, b: a == b, ast.NotEq: lambda a, b: a != b,
                     ast.Lt: lambda a, b: a < b, ast.LtE: lambda a, b: a <= b,
                     ast.Gt: lambda a, b: a > b, ast.GtE: lambda a, b: a >= b,
                     ast.Is: lambda a, b: a is b, ast.IsNot: lambda a, b: a is not b,
                     ast.In: lambda a, b: a in b, ast.NotIn: lambda a, b: a not in b}[type(op)](left, right)
                if not r:
                    return False
                left = right
            return True
        if isinstance(e, ast.IfExp):
            return self.ev(e.body if self.truth(self.ev(e.test, env)) else e.orelse, env)
        if isinstance(e, ast.Subscript):
            b = self.ev(e.value, env)
            if isinstance(e.slice, ast.Slice):
                lo = self.ev(e.slice.lower, env) if e.slice.lower else None
                hi = self.ev(e.slice.upper, env) if e.slice.upper else None
                st = self.ev(e.slice.step, env) if e.slice.step else None
                r = b[lo:hi:st]
                return Vec(r) if isinstance(b, Vec) else r
            if isinstance(b, Mat) and isinstance(e.slice, ast.Tuple) and len(e.slice.elts) == 2:
                r, c = e.slice.elts
                if _is_full_slice(c) and not isinstance(r, ast.Slice):
                    return Vec(b[self.ev(r, env)])
                if _is_full_slice(r) and not isinstance(c, ast.Slice):
                    ci = self.ev(c, env)
                    return Vec(row[ci] for row in b)
                if not isinstance(r, ast.Slice) and not isinstance(c, ast.Slice):
                    return b[self.ev(r, env)][self.ev(c, env)]
                raise Unsupported("subscript %s" % norm(e))
            if isinstance(b, SymArr) and isinstance(e.slice, ast.Tuple) and \
                    any(isinstance(x, ast.Slice) for x in e.slice.elts):
                if all(isinstance(x, ast.Slice) for x in e.slice.elts):
                    return b          # a cut of an opaque array is the same opaque array (elements keep their index)
                raise Unsupported("mixed slice of an opaque array")
            i = self.ev(e.slice, env)
            if isinstance(b, SymArr):
                return b.at(i)
            if isinstance(b, Vec) and isinstance(i, (list, tuple)):
                return Vec(b[j] for j in i)
            if isinstance(b, (list, tuple, dict, str)):
                return b[i]
            raise Unsupported("subscript of %s" % norm(e.value))
        if isinstance(e, ast.Call):
            return self.call(e, env)
        if isinstance(e, ast.ListComp) and len(e.generators) == 1 and not e.generators[0].is_async:
            g = e.generators[0]
            out = []
            for x in list(self.ev(g.iter, env)):
                env2 = dict(env)
                self.store(g.target, x, env2)
                if all(self.truth(self.ev(c, env2)) for c in g.ifs):
                    out.append(self.ev(e.elt, env2))
            return out
        raise Unsupported("expression %s" % norm(e)[:60])

    def call(self, e, env):
        args = [self.ev(a, env) for a in e.args]
        if isinstance(e.func, ast.Attribute):
            recv = self.ev(e.func.value, env)
            meth = e.func.attr
            if isinstance(recv, Stub):
                if meth not in recv.methods:
                    raise Unsupported("method %s of %s" % (meth, recv.kind))
                kwargs = {k.arg: self.ev(k.value, env) for k in e.keywords if k.arg is not None}
                return recv.methods[meth](*args, **kwargs)
            if recv == "<numpy>":
                return self.numpy_call(meth, args)
            if isinstance(recv, list) and meth == "append":
                recv.append(args[0])
                return None
            if isinstance(recv, (list, tuple)) and meth in ("index", "count"):
                return getattr(recv, meth)(*args)
            if isinstance(recv, list) and meth == "copy" and not args:
                return type(recv)(recv) if isinstance(recv, (Vec, Mat)) else list(recv)
            if isinstance(recv, dict) and meth in ("get", "keys", "values", "items"):
                return getattr(recv, meth)(*args)
            raise Unsupported("call %s" % norm(e)[:60])
        if isinstance(e.func, ast.Name):
            name = e.func.id
            if name in env and callable(env[name]):
                return env[name](*args)
            if name == "isinstance":
                cls = e.args[1]
                names = [c.id for c in (cls.elts if isinstance(cls, ast.Tuple) else [cls]) if isinstance(c, ast.Name)]
                return isinstance(args[0], Stub) and args[0].kind in names
            def _len(x):
                if isinstance(x, Stub) and x.kind == "ndarray" and "shape" in x.attrs:
                    return x.attrs["shape"][0]
                return len(x)
            table = {"len": _len, "range": range, "abs": abs, "int": int, "float": float, "max": max, "min": min,
                     "sum": sum, "list": list, "tuple": tuple, "sorted": sorted, "enumerate": enumerate, "zip": zip,
                     "set": set, "bool": bool}
            if name in table:
                return table[name](*args)
            raise Unsupported("call of %s" % name)
        raise Unsupported("call %s" % norm(e)[:60])

    def numpy_call(self, name, args):
        if name in ("array", "asarray"):
            return Vec(args[0])
        if name in ("abs", "absolute"):
            return Vec(abs(x) for x in args[0]) if isinstance(args[0], list) else abs(args[0])
        if name == "sum":
            return sum(args[0])
        if name in ("max", "amax"):
            return max(args[0])
        if name in ("min", "amin"):
            return min(args[0])
        if name == "sqrt":
            return math.sqrt(args[0])
        if name in ("real", "float64", "int64"):
            return args[0]
        if name in ("count_nonzero",):
            return sum(1 for x in args[0] if x != 0)
        if name in ("nonzero", "flatnonzero"):
            r = [i for i, x in enumerate(args[0]) if x != 0]
            return (Vec(r),) if name == "nonzero" else Vec(r)
        if name == "zeros":
            if isinstance(args[0], int):
                return Vec([0] * args[0])
            if len(args[0]) == 1:
                return Vec([0] * args[0][0])
            if len(args[0]) == 2:
                return Mat(Vec([0] * args[0][1]) for _ in range(args[0][0]))
            raise Unsupported("numpy.zeros of rank > 2")
        if name == "array_equal":
            return list(args[0]) == list(args[1])
        raise Unsupported("numpy.%s" % name)


def interpreted_method(stub, fnode, budget=2000000):
    """a callable that interprets the method `fnode` with `stub` as self"""
    def call(*args, **kwargs):
        a = fnode.args
        names = [x.arg for x in a.args][1:]
        env = {"self": stub}
        defaults = dict(zip(names[len(names) - len(a.defaults):], a.defaults))
        for i, nme in enumerate(names):
            if i < len(args):
                env[nme] = args[i]
            elif nme in kwargs:
                env[nme] = kwargs[nme]
            elif nme in defaults:
                env[nme] = ast.literal_eval(defaults[nme])
            else:
                raise Unsupported("missing argument %s" % nme)
        return Evaluator(max_steps=budget).call_function(fnode, env)
    return call


def _as_load(t):
    if isinstance(t, ast.Name):
        return ast.Name(id=t.id, ctx=ast.Load())
    if isinstance(t, ast.Subscript):
        return ast.Subscript(value=t.value, slice=t.slice, ctx=ast.Load())
    if isinstance(t, ast.Attribute):
        return ast.Attribute(value=t.value, attr=t.attr, ctx=ast.Load())
    raise Unsupported("augmented assignment target")
