"""Statement patterns with metavariables over normalised statement text.

A pattern is normalised Python text in which ``$X`` stands for an identifier
(a local variable name).  The first occurrence of a metavariable binds it,
later occurrences (in the same or in later patterns matched with the same
environment) must be the same identifier.  This makes protocol rules
independent of the names of local variables while still requiring that the
*same* value flows between the statements.
"""
import re

_meta = re.compile(r"\$([A-Za-z_][A-Za-z0-9_]*)")
_ident = r"[A-Za-z_][A-Za-z0-9_]*"


def compile_pattern(pattern, env):
    seen = set()
    out = []
    pos = 0
    for m in _meta.finditer(pattern):
        out.append(re.escape(pattern[pos:m.start()]))
        name = m.group(1)
        if name in env:
            out.append(re.escape(env[name]))
        elif name in seen:
            out.append("(?P=%s)" % name)
        else:
            seen.add(name)
            out.append("(?P<%s>%s)" % (name, _ident))
        pos = m.end()
    out.append(re.escape(pattern[pos:]))
    return re.compile("^" + "".join(out) + "$")


def match(pattern, text, env):
    """Returns the extended environment on success, None otherwise."""
    m = compile_pattern(pattern, env).match(text)
    if m is None:
        return None
    new = dict(env)
    new.update({k: v for k, v in m.groupdict().items() if v is not None})
    return new


def find(texts, pattern, env, start=0):
    """First index >= start whose text matches; returns (index, env) or (None, env)."""
    for k in range(start, len(texts)):
        e = match(pattern, texts[k], env)
        if e is not None:
            return k, e
    return None, env


def find_all(texts, pattern, env):
    out = []
    for k, t in enumerate(texts):
        e = match(pattern, t, env)
        if e is not None:
            out.append((k, e))
    return out


def seq(texts, patterns, env=None, ordered=True):
    """Match a list of patterns (each once); with ordered=True their positions must
    increase.  Returns (env, positions) or (None, reason)."""
    env = dict(env or {})
    pos = []
    last = -1
    for p in patterns:
        k, env2 = find(texts, p, env, start=(last + 1) if ordered else 0)
        if k is None:
            return None, "no statement matches %r%s" % (p, " after position %d" % last if ordered else "")
        env = env2
        pos.append(k)
        last = k
    return env, pos
