"""Containers filled while a counter counts are read back by the counter's values.

    nob = 0
    for ...:
        if <this transition has a bath>:
            d[nob] = j          # or  states.append(j)
            nob += 1
    ...
    for n in range(nob):        # or range(ntr) with ntr = nob
        state = d[n]

`d[n]` is 'what was recorded when the counter stood at n' only if every recording happens exactly where the counter
advances: in the same statement list as `nob += 1` (the same conditions, once per increment), a keyed store before the
increment.  An append one level further out records entries the counter never counted, and entry n no longer belongs to
bath n.
"""
import ast

from .loader import walk_no_nested, parents_map


def _block_of(pm, st):
    p = pm.get(st)
    for fld in ("body", "orelse", "finalbody"):
        b = getattr(p, fld, None)
        if isinstance(b, list) and st in b:
            return b
    return None


def analyse(fnode):
    """[(container, counter, verdict ok?, node, why)] for every container read by a range over a counter."""
    pm = parents_map(fnode)
    zero, incs = {}, {}
    for x in walk_no_nested(fnode):
        if isinstance(x, ast.Assign) and len(x.targets) == 1 and isinstance(x.targets[0], ast.Name) \
                and isinstance(x.value, ast.Constant) and x.value.value == 0 and not isinstance(x.value.value, bool):
            zero.setdefault(x.targets[0].id, x)
        if isinstance(x, ast.AugAssign) and isinstance(x.op, ast.Add) and isinstance(x.target, ast.Name) \
                and isinstance(x.value, ast.Constant) and x.value.value == 1:
            incs.setdefault(x.target.id, []).append(x)
        # the same written out: c = c + 1 / c = 1 + c
        if isinstance(x, ast.Assign) and len(x.targets) == 1 and isinstance(x.targets[0], ast.Name) and isinstance(x.value, ast.BinOp) \
                and isinstance(x.value.op, ast.Add):
            l_, r_ = x.value.left, x.value.right
            for a_, b_ in ((l_, r_), (r_, l_)):
                if isinstance(a_, ast.Name) and a_.id == x.targets[0].id and isinstance(b_, ast.Constant) and b_.value == 1:
                    incs.setdefault(x.targets[0].id, []).append(x)
    counters = {c for c in incs if c in zero}
    if not counters:
        return []
    alias = {}          # name -> (counter, line of the snapshot)
    for x in walk_no_nested(fnode):
        if isinstance(x, ast.Assign) and len(x.targets) == 1 and isinstance(x.targets[0], ast.Name) \
                and isinstance(x.value, ast.Name) and x.value.id in counters and x.targets[0].id not in counters:
            alias[x.targets[0].id] = (x.value.id, x.lineno)
    out = []
    seen = set()
    for loop in walk_no_nested(fnode):
        if not (isinstance(loop, ast.For) and isinstance(loop.target, ast.Name) and isinstance(loop.iter, ast.Call)
                and isinstance(loop.iter.func, ast.Name) and loop.iter.func.id == "range" and len(loop.iter.args) in (1, 2)
                and isinstance(loop.iter.args[-1], ast.Name)):
            continue
        bound = loop.iter.args[-1].id
        if bound in counters:
            c, upto = bound, loop.lineno
        elif bound in alias:
            c, upto = alias[bound]
        else:
            continue
        n = loop.target.id
        for x in ast.walk(loop):
            if isinstance(x, ast.Subscript) and isinstance(x.ctx, ast.Load) and isinstance(x.value, ast.Name) \
                    and isinstance(x.slice, ast.Name) and x.slice.id == n and (x.value.id, c) not in seen:
                X = x.value.id
                # is X filled in this function at all?
                writes = []
                for w in walk_no_nested(fnode):
                    if isinstance(w, ast.Assign):
                        for t_ in w.targets:
                            if isinstance(t_, ast.Subscript) and isinstance(t_.value, ast.Name) and t_.value.id == X \
                                    and isinstance(t_.slice, ast.Name) and t_.slice.id == c:
                                writes.append(("store", w))
                    if isinstance(w, ast.Expr) and isinstance(w.value, ast.Call) and isinstance(w.value.func, ast.Attribute) \
                            and w.value.func.attr == "append" and isinstance(w.value.func.value, ast.Name) \
                            and w.value.func.value.id == X:
                        writes.append(("append", w))
                if not writes:
                    continue
                seen.add((X, c))
                ok, node, why = True, x, ""
                for kind, w in writes:
                    blk = _block_of(pm, w) or []
                    inc_here = [i for i in incs[c] if i in blk]
                    if not inc_here:
                        ok, node = False, w
                        why = ("`%s` is %s where `%s` does not advance (the increment stands in another block): entry n is not the "
                               "one recorded when `%s` was n" % (X, "appended to" if kind == "append" else "written", c, c))
                        break
                    if kind == "store" and blk.index(w) > blk.index(inc_here[0]):
                        ok, node = False, w
                        why = "`%s[%s]` is written after `%s` has advanced: the entry belongs to the next value" % (X, c, c)
                        break
                if ok:
                    # every advance of the counter that the range covers records an entry
                    for i in incs[c]:
                        if i.lineno > upto:
                            continue
                        blk = _block_of(pm, i) or []
                        if not any(w in blk for _k, w in writes):
                            ok, node = False, i
                            why = "`%s` advances without an entry of `%s` being recorded: later entries are one position short" % (c, X)
                            break
                out.append((X, c, ok, node, why))
    return out
