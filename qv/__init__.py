"""qv - static verification engine for tmancal74/quantarhei.

Pure standard library.  Nothing in here imports or runs quantarhei; the only
third-party import anywhere is numpy/scipy inside ``qv.apiexist`` (attribute
existence against the interpreter that runs the test suite).
"""
import os as _os
# QV_REPO is only used to evaluate seeded changes on a scratch worktree; the registered
# commands never set it and always analyse /repo's working tree.
REPO = _os.environ.get("QV_REPO", "/repo")
PKG = "quantarhei"
