"""qv - static verification engine for tmancal74/quantarhei.

Pure standard library.  Nothing in here imports or runs quantarhei; the only
third-party import anywhere is numpy/scipy inside ``qv.apiexist`` (attribute
existence against the interpreter that runs the test suite).
"""
REPO = "/repo"
PKG = "quantarhei"
