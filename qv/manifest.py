"""Generates /verif/MANIFEST.json from the table below (python -m qv.manifest)."""
import json
import os

VERIF = os.path.dirname(os.path.dirname(os.path.abspath(__file__)))

BASE_NOTE = ("Trusted base: the Python semantics of the statement kinds the analysers accept, the "
             "NumPy primitives modelled in qv/ta_front.py, and the resolver in qv/loader.py. "
             "A rule that cannot find its anchor or cannot interpret a construct exits 2 "
             "(ANALYSIS-ERROR), never 0. ")

CLAIMS = {
    "C01": dict(
        text="Static, all-inputs decision of the algebraic clause of C01: the element formula that "
             "the assembling code produces for every tensor class of the property's list "
             "(Redfield, TD-Redfield, Lindblad, Foerster, TD-Foerster, Redfield-Foerster and its TD "
             "sibling, plus the operator form) satisfies sum_a R[a,a,c,d]=0 and "
             "conj(R[a,b,c,d])=R[b,a,d,c] as polynomial identities for every dimension, time index "
             "and input (index-algebra abstract interpretation with a canonical normal form); the "
             "five secular masks are evaluated exhaustively on the 15 equality patterns of four "
             "indices; every tensor class wired into get_RelaxationTensor has an obligation. "
             "'In every basis' follows from the covariance obligations of C04. Not decided: "
             "rounding, values of rates. This is the right level because the part of C01 that "
             "realistic edits break (an index, a sign, a conj, a guard, call order) is exactly the "
             "polynomial structure, which no sampling settles for all inputs.",
        note=BASE_NOTE + "Assumptions printed in evidence: system-bath operators real (Lindblad) / "
             "real symmetric in the eigenbasis (TD Redfield Hermiticity), rate matrices real.",
        technique="abstract interpretation of the assembling code into an index algebra (sums of "
                  "index monomials) + canonical-form identity checking; exhaustive finite evaluation "
                  "of comparison-only predicates; call-site coverage check",
        design="3/C01"),
    "C04": dict(
        text="Static decision of the structural clauses of C04: (B1) eigenbasis_of.__enter__ pushes "
             "exactly one basis/transformation/registry triple and __exit__ pops both stacks, "
             "transforms every registered unprotected object back with the inverse pair, re-tags and "
             "re-registers it, deletes the registry entry, clears the context flag iff depth returns "
             "to 1, on every path and without swallowing exceptions; (B2) package-wide who-may-call: "
             "contexts are only constructed as 'with' items and only Manager/eigenbasis_of touch the "
             "basis stacks, so exit on exceptions is guaranteed by the language; (B3) every "
             "BasisManaged class tags itself with the current basis in its constructor's call "
             "closure; (B4) index-algebra proof, from the code of every transform() method and every "
             "managed storage, that operators map as S^-1.A.S and tensors covariantly "
             "(R'rho'=(R rho)'), with and without the inv argument, using only S1.S=1 (no "
             "orthogonality) - hence traces, tr(A rho), tensor actions are basis independent and the "
             "exit transformation undoes the entry; (B5) managed property getters/setters transform "
             "before touching storage and stacked transformations compose outer-first. Not decided: "
             "eigh's ordering/degeneracy behaviour and rounding.",
        note=BASE_NOTE + "numpy.linalg.inv returns the inverse; 'with' guarantees __exit__.",
        technique="protocol (pairing/ordering) rules on the AST of the context manager, package-wide "
                  "who-may-call scan over resolved calls, constructor call-closure rule, index-algebra "
                  "abstract interpretation of every transform() with canonical-form equality",
        design="3/C04"),
    "C02": dict(
        text="Static decision of the structural clauses of C02 for all inputs: (A) each of the 11 "
             "expansion loops of rdmpropagator.py and the 3 of svpropagator.py is recognised and one "
             "iteration is interpreted with the index algebra: counter over range(1,L+1), every term "
             "that contains the running iterate contains it once with the factor dt/ll exactly once, "
             "accumulator_new = accumulator_old + iterate_new, restart from the accumulator right "
             "after the loop, nesting inside refinement and time loops, one store per outer step with "
             "a slot counter starting at 1 and advancing by one, the step is the refined step; "
             "(B) each generator term (commutator with Hermitian and non-Hermitian branch, tensor and "
             "operator relaxation terms, field terms) is trace-free and maps Hermitian to Hermitian as "
             "an identity, so every stored state keeps the trace and Hermiticity of the initial one "
             "for every L, refinement and representation; state-vector generator is -i(dt/ll)H psi and "
             "anti-Hermitian; (C) the assembled Lindblad tensor equals the GKSL generator term by "
             "term; (D) routines that propagate with the rotating-wave Hamiltonian mark their result, "
             "the back conversion is U rho U^+ with unit-modulus diagonal phases; (E) no in-place "
             "operation on values aliasing the caller's initial state. Not decided: positivity of the "
             "truncated series, truncation bounds, energy/purity conservation (magnitudes).",
        note=BASE_NOTE + "Relaxation tensors passed to the propagator are assumed to satisfy the C01 "
             "identities; Ld = Lm^+ for stored operator forms (established by C01-A).",
        technique="loop-pattern recogniser over the AST + index-algebra interpretation of one "
                  "expansion step (linearity, scalar factor, accumulation), TA identities for the "
                  "generator terms, pairing rule for the RWA flag, alias/ownership rule",
        design="3/C02"),
    "C07": dict(
        text="Static, all-inputs decision of the algebraic clauses of C07: the action sum_cd "
             "R[a,b,c,d] rho[c,d] of the tensor produced by convert_2_tensor from the operators stored "
             "by _implementation equals RedfieldRelaxationTensor.apply (operator form), equals "
             "rdmpropagator._OTI up to the factor dt/ll, and _TTI is that contraction - for Redfield "
             "and Lindblad forms, and for the time-dependent pair under the printed assumption "
             "symmetric(K_m) (index algebra, canonical-form equality); conversion/secularisation "
             "typestate (same assembler, data stored before as_operators is cleared, convert before "
             "masking, dispatch of apply); both forms obey the covariant transformation law "
             "(C04-B4 instances); the time-dependent and time-independent integrand pipelines are the "
             "same expression with the latter taking element length-1 of the running integral the "
             "former keeps. Since C02-A shows both propagation routines are the same Taylor scheme "
             "around these maps, equal maps give equal dynamics. Not decided: data[0]=0 (a property of "
             "the spline antiderivative) and the pure-dephasing benchmark (numerics).",
        note=BASE_NOTE + "scipy spline antiderivative returns the running integral; symmetric(K_m) for "
             "the time-dependent pair.",
        technique="index-algebra abstract interpretation of assembler, apply() and propagator helpers "
                  "with canonical-form equality; typestate/ordering rules; alpha-normalised sibling "
                  "expression comparison",
        design="3/C07"),
    "C08": dict(
        text="Static decision of the structural clauses of C08: all four initialisation sites write "
             "the unit superoperator delta_ac delta_bd (at time index 0) (TA); the first interval is "
             "built column by column from propagated basis elements E_nm with set/propagate/reset "
             "paired on every path and stored at U[:,:,n,m] from the last stored time; every "
             "composition call is new = step . previous with the default contraction (TA evaluation "
             "of the call expression, accepts equivalent einsum/axes spellings), loops start at 2, "
             "calculate() re-initialises first; the incremental mode performs the same first step and "
             "recurrence and advances 'now' exactly once per call on every path; apply/at contract the "
             "stored tensor at the located index with the state. By induction the time-independent "
             "superoperator is U(t_1)^i, hence a semigroup on the grid; trace/Hermiticity follow from "
             "C02-B by linearity. Not decided: error from refining the dense step.",
        note=BASE_NOTE + "Linearity of propagate() in the initial state (C02-A).",
        technique="index-algebra evaluation of initialisation loops and composition call expressions, "
                  "pairing/ordering rules on the AST, path counting of the step counter, sibling "
                  "comparison of the two calculation modes",
        design="3/C08"),
    "C16": dict(
        text="Static decision of the structural clauses of C16: one (member, bath) iteration of both "
             "right-hand sides is interpreted with the index algebra (link tables as opaque index "
             "maps): every term maps Hermitian auxiliary operators to Hermitian ones given Hermitian "
             "H and V_k, carries the step exactly once, and the terms that survive for the root "
             "member (those without the order n_k) are commutators, so the reduced operator's "
             "equation is trace-free given Gamma[0]=0, which follows from Gamma[n]=sum_k n_k gamma_k "
             "(TA on _make_Gamma) and the root multi-index being the zero vector generated first; "
             "propagate() is the order-L Taylor scheme over the sum of both right-hand sides with "
             "dt/ll and stores member 0; the -1 sentinel written for missing links is excluded by the "
             "guards for every sign class of (n_k, link) or multiplied by n_k = 0; the auxiliary "
             "operators are fully reset before their first use in a run (the repaired C15 defect). "
             "Not decided: completeness/uniqueness of the index set and mutual inverseness of the "
             "link tables for arbitrary depth (combinatorial), zero-coupling and depth limits "
             "(numerical).",
        note=BASE_NOTE + "Vs, H Hermitian; lam, gamma, kBT real; index set complete (a missing lower "
             "link only with n_k = 0).",
        technique="index-algebra interpretation of the right-hand-side loop bodies, Taylor-loop "
                  "recogniser with the right-hand sides as opaque linear maps, finite evaluation of "
                  "comparison-only guards, reset-before-use ordering rule",
        design="3/C16"),
    "C17": dict(
        text="Static decision of the structural clauses of C17: RateMatrix.set_rate, interpreted with "
             "the index algebra, leaves every column sum unchanged, touches only column M, keeps the "
             "other rates and makes K[N,M] the given value (identities for all N != M, all matrices), "
             "refuses the diagonal before any store, and an empty matrix starts as zeros - so any "
             "sequence of assignments keeps zero column sums; _propagate_short_exp is the Taylor "
             "scheme around p -> (dt/ll) K p and sum(p) is conserved by one step exactly when the "
             "columns of K sum to zero; get_PropagationMatrix is guarded by is_subset_of, starts from "
             "the identity, steps with S diag(exp(lambda*step)) S^-1 on the sub-axis step (TA on the "
             "expression), recurs U_i = E U_{i-1} from 1, bridges a shifted start exactly once; the "
             "initial populations are not mutated. Not decided: non-negativity and distance to expm.",
        note=BASE_NOTE + "numpy.linalg.eig/inv semantics.",
        technique="index-algebra interpretation of set_rate and of one expansion step, TA evaluation "
                  "of the spectral-exponential expressions, ordering/pairing rules, alias rule",
        design="3/C17"),
    "C05": dict(
        text="Static decision of the structural clauses of C05: (U1) package-wide who-may-call over "
             "resolved calls: only the units context managers, Manager and the public "
             "set_current_units switch units or write the unit tables, so no library call can change "
             "its caller's units outside a context; (U2) energy_units/length_units push the current "
             "units of their own type on a per-object stack before switching and restore the popped "
             "value of the same type unconditionally, keep the context counter balanced, clear the "
             "flag iff zero, and do not swallow exceptions (re-entrant: nesting restores correctly even "
             "for one object); frequency_units inherits this unchanged; (U3) every construction of a "
             "units context in the package is a with-item (or a name only used as one), so exit on "
             "exceptions is guaranteed by the language; (U4) every unit accepted by the contexts has a "
             "conversion factor, internal units have factor one, energy/frequency factors agree, the "
             "conversion functions look up the factor of the current units of their own type and are "
             "mutually inverse for every unit - including the reciprocal nm branch - by scalar "
             "algebra; (U5) every units-managed accessor converts to internal units on store and to "
             "current units on read and every class declaring one inherits both converters of the "
             "right type; (U6) the enforcement decorators test their flags. Hence a value stored "
             "under one context and read under another is the exact conversion and the stored value is "
             "context independent. Not decided: the numerical values of the factors.",
        note=BASE_NOTE + "'with' guarantees __exit__.",
        technique="who-may-call scan over resolved calls, protocol (ordering/pairing) rules on the AST "
                  "of the context managers, with-only construction rule, constant folding of unit "
                  "tables, scalar-algebra inverse proof, MRO-based converter resolution",
        design="3/C05"),
    "C15": dict(
        text="Static decision of C15's structural content: an effect analysis (attribute/element "
             "stores, in-place operations, mutating method calls and callee summaries) over every "
             "propagator method, tensor/rate constructor, the evolution superoperator and the "
             "OpenSystem factory methods reports every modification of a parameter or of an object held "
             "in an input-carrying attribute; each accepted effect is in a frozen table with its reason "
             "and the reason is itself checked (scratch reset before use, inhomogeneous term recomputed "
             "per call, field frequency set/restore paired, protect/unprotect and subtract/recover "
             "paired in nesting order on every normal path); the attributes a propagation may leave on "
             "the propagator form a second frozen table (refinement restored in a finally, dephasing "
             "factors rebuilt per call, flags re-derived from inputs); scratch hierarchy state and "
             "superoperator data are re-initialised before first use. Two genuine open findings are "
             "listed in known_findings.json. Not decided: bit-for-bit reproducibility of NumPy.",
        note=BASE_NOTE + "Methods on unknown receivers are resolved by name (may-call); managed getters "
             "only change representation.",
        technique="effect (mutation) analysis with bottom-up function summaries over the resolved call "
                  "graph, reset-before-use and pairing rules, frozen exception tables with checked "
                  "justifications",
        design="3/C15"),
}

NOT_YET = "check not built yet in this round (see DESIGN.md section 3 for the planned rules)"


def build():
    props = []
    with open(os.path.join(VERIF, "properties.jsonl")) as fh:
        for line in fh:
            line = line.strip()
            if line:
                props.append(json.loads(line)["id"])
    checks = []
    na = []
    for pid in props:
        c = CLAIMS.get(pid)
        if c is None:
            na.append({"property_id": pid, "reason": NOT_APPLICABLE.get(pid, NOT_YET)})
            continue
        checks.append({
            "property_id": pid,
            "quick_cmd": "./check %s --tier quick" % pid,
            "thorough_cmd": "./check %s --tier thorough" % pid,
            "evidence_file": "/verif/evidence/%s.json" % pid,
            "replay_cmd_template": "./check --replay {path}",
            "engine": "qv",
            "level_claimed": {"category": "other", "text": c["text"], "design_ref": c["design"]},
            "level_note": c["note"],
            "technique": c["technique"],
        })
    man = {
        "version": 1,
        "setup_cmd": "/venv/bin/python -W ignore -B -m qv.selfcheck",
        "hooks": {
            "guard": "QUANTARHEI_VERIF",
            "enable": "none needed: the checks are static and read /repo's working tree; no "
                      "instrumentation was added to the repository",
            "baseline_off_cmd": "cd /repo && /venv/bin/python -m pytest -ra -q -p no:cacheprovider "
                                "--timeout=900 --continue-on-collection-errors",
            "source_commits": [],
            "add_only": True,
        },
        "engines": [
            {"name": "qv", "path": "/verif/qv",
             "serves_properties": [c["property_id"] for c in checks],
             "kind_free_text": "purpose-built static analyser for quantarhei (pure stdlib, ast-based): "
                               "loader/resolver with MRO and call resolution, index-algebra abstract "
                               "interpreter (TA), scalar algebra, statement CFG, who-may-call / pairing / "
                               "typestate rules, finite-configuration evaluation, API-existence"},
        ],
        "checks": checks,
        "not_applicable": na,
        "notes": "Static analysis only: every check re-parses /repo/quantarhei on each run and never "
                 "imports or executes it. Genuine defects found were repaired in /repo by 'fix:' "
                 "commits (listed as fixed in known_findings.json); open ones are listed there as "
                 "open and are printed as KNOWN-FINDING.",
    }
    return man


NOT_APPLICABLE = {}


def main():
    man = build()
    with open(os.path.join(VERIF, "MANIFEST.json"), "w") as fh:
        json.dump(man, fh, indent=1)
    print("MANIFEST.json: %d checks, %d not_applicable" % (len(man["checks"]), len(man["not_applicable"])))


if __name__ == "__main__":
    main()
