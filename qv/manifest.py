"""Generates /verif/MANIFEST.json from the table below (python -m qv.manifest)."""
import json
import os

VERIF = os.path.dirname(os.path.dirname(os.path.abspath(__file__)))

BASE_NOTE = ("Trusted base: the Python semantics of the statement kinds the analysers accept, the "
             "NumPy primitives modelled in qv/ta_front.py, and the resolver in qv/loader.py. "
             "A rule that cannot find its anchor or cannot interpret a construct exits 2 "
             "(ANALYSIS-ERROR), never 0. ")

CLAIMS = {
    "C01": dict(
        text="Static, all-inputs decision of the algebraic clause of C01: the element formula that "
             "the assembling code produces for every tensor class of the property's list "
             "(Redfield, TD-Redfield, Lindblad, Foerster, TD-Foerster, Redfield-Foerster and its TD "
             "sibling, plus the operator form) satisfies sum_a R[a,a,c,d]=0 and "
             "conj(R[a,b,c,d])=R[b,a,d,c] as polynomial identities for every dimension, time index "
             "and input (index-algebra abstract interpretation with a canonical normal form); the "
             "five secular masks are evaluated exhaustively on the 15 equality patterns of four "
             "indices; every tensor class wired into get_RelaxationTensor has an obligation. "
             "'In every basis' follows from the covariance obligations of C04. Not decided: "
             "rounding, values of rates. This is the right level because the part of C01 that "
             "realistic edits break (an index, a sign, a conj, a guard, call order) is exactly the "
             "polynomial structure, which no sampling settles for all inputs.",
        note=BASE_NOTE + "Assumptions printed in evidence: system-bath operators real (Lindblad) / "
             "real symmetric in the eigenbasis (TD Redfield Hermiticity), rate matrices real.",
        technique="abstract interpretation of the assembling code into an index algebra (sums of "
                  "index monomials) + canonical-form identity checking; exhaustive finite evaluation "
                  "of comparison-only predicates; call-site coverage check",
        design="3/C01"),
    "C04": dict(
        text="Static decision of the structural clauses of C04: (B1) eigenbasis_of.__enter__ pushes "
             "exactly one basis/transformation/registry triple and __exit__ pops both stacks, "
             "transforms every registered unprotected object back with the inverse pair, re-tags and "
             "re-registers it, deletes the registry entry, clears the context flag iff depth returns "
             "to 1, on every path and without swallowing exceptions; (B2) package-wide who-may-call: "
             "contexts are only constructed as 'with' items and only Manager/eigenbasis_of touch the "
             "basis stacks, so exit on exceptions is guaranteed by the language; (B3) every "
             "BasisManaged class tags itself with the current basis in its constructor's call "
             "closure; (B4) index-algebra proof, from the code of every transform() method and every "
             "managed storage, that operators map as S^-1.A.S and tensors covariantly "
             "(R'rho'=(R rho)'), with and without the inv argument, using only S1.S=1 (no "
             "orthogonality) - hence traces, tr(A rho), tensor actions are basis independent and the "
             "exit transformation undoes the entry; (B5) managed property getters/setters transform "
             "before touching storage and stacked transformations compose outer-first. Not decided: "
             "eigh's ordering/degeneracy behaviour and rounding.",
        note=BASE_NOTE + "numpy.linalg.inv returns the inverse; 'with' guarantees __exit__.",
        technique="protocol (pairing/ordering) rules on the AST of the context manager, package-wide "
                  "who-may-call scan over resolved calls, constructor call-closure rule, index-algebra "
                  "abstract interpretation of every transform() with canonical-form equality",
        design="3/C04"),
    "C02": dict(
        text="Static decision of the structural clauses of C02 for all inputs: (A) each of the 11 "
             "expansion loops of rdmpropagator.py and the 3 of svpropagator.py is recognised and one "
             "iteration is interpreted with the index algebra: counter over range(1,L+1), every term "
             "that contains the running iterate contains it once with the factor dt/ll exactly once, "
             "accumulator_new = accumulator_old + iterate_new, restart from the accumulator right "
             "after the loop, nesting inside refinement and time loops, one store per outer step with "
             "a slot counter starting at 1 and advancing by one, the step is the refined step; "
             "(B) each generator term (commutator with Hermitian and non-Hermitian branch, tensor and "
             "operator relaxation terms, field terms) is trace-free and maps Hermitian to Hermitian as "
             "an identity, so every stored state keeps the trace and Hermiticity of the initial one "
             "for every L, refinement and representation; state-vector generator is -i(dt/ll)H psi and "
             "anti-Hermitian; (C) the assembled Lindblad tensor equals the GKSL generator term by "
             "term; (D) routines that propagate with the rotating-wave Hamiltonian mark their result, "
             "the back conversion is U rho U^+ with unit-modulus diagonal phases; (E) no in-place "
             "operation on values aliasing the caller's initial state. Not decided: positivity of the "
             "truncated series, truncation bounds, energy/purity conservation (magnitudes).",
        note=BASE_NOTE + "Relaxation tensors passed to the propagator are assumed to satisfy the C01 "
             "identities; Ld = Lm^+ for stored operator forms (established by C01-A).",
        technique="loop-pattern recogniser over the AST + index-algebra interpretation of one "
                  "expansion step (linearity, scalar factor, accumulation), TA identities for the "
                  "generator terms, pairing rule for the RWA flag, alias/ownership rule",
        design="3/C02"),
    "C07": dict(
        text="Static, all-inputs decision of the algebraic clauses of C07: the action sum_cd "
             "R[a,b,c,d] rho[c,d] of the tensor produced by convert_2_tensor from the operators stored "
             "by _implementation equals RedfieldRelaxationTensor.apply (operator form), equals "
             "rdmpropagator._OTI up to the factor dt/ll, and _TTI is that contraction - for Redfield "
             "and Lindblad forms, and for the time-dependent pair under the printed assumption "
             "symmetric(K_m) (index algebra, canonical-form equality); conversion/secularisation "
             "typestate (same assembler, data stored before as_operators is cleared, convert before "
             "masking, dispatch of apply); both forms obey the covariant transformation law "
             "(C04-B4 instances); the time-dependent and time-independent integrand pipelines are the "
             "same expression with the latter taking element length-1 of the running integral the "
             "former keeps. Since C02-A shows both propagation routines are the same Taylor scheme "
             "around these maps, equal maps give equal dynamics. Not decided: data[0]=0 (a property of "
             "the spline antiderivative) and the pure-dephasing benchmark (numerics).",
        note=BASE_NOTE + "scipy spline antiderivative returns the running integral; symmetric(K_m) for "
             "the time-dependent pair.",
        technique="index-algebra abstract interpretation of assembler, apply() and propagator helpers "
                  "with canonical-form equality; typestate/ordering rules; alpha-normalised sibling "
                  "expression comparison",
        design="3/C07"),
    "C08": dict(
        text="Static decision of the structural clauses of C08: all four initialisation sites write "
             "the unit superoperator delta_ac delta_bd (at time index 0) (TA); the first interval is "
             "built column by column from propagated basis elements E_nm with set/propagate/reset "
             "paired on every path and stored at U[:,:,n,m] from the last stored time; every "
             "composition call is new = step . previous with the default contraction (TA evaluation "
             "of the call expression, accepts equivalent einsum/axes spellings), loops start at 2, "
             "calculate() re-initialises first; the incremental mode performs the same first step and "
             "recurrence and advances 'now' exactly once per call on every path; apply/at contract the "
             "stored tensor at the located index with the state. By induction the time-independent "
             "superoperator is U(t_1)^i, hence a semigroup on the grid; trace/Hermiticity follow from "
             "C02-B by linearity. Not decided: error from refining the dense step.",
        note=BASE_NOTE + "Linearity of propagate() in the initial state (C02-A).",
        technique="index-algebra evaluation of initialisation loops and composition call expressions, "
                  "pairing/ordering rules on the AST, path counting of the step counter, sibling "
                  "comparison of the two calculation modes",
        design="3/C08"),
    "C16": dict(
        text="Static decision of the structural clauses of C16: one (member, bath) iteration of both "
             "right-hand sides is interpreted with the index algebra (link tables as opaque index "
             "maps): every term maps Hermitian auxiliary operators to Hermitian ones given Hermitian "
             "H and V_k, carries the step exactly once, and the terms that survive for the root "
             "member (those without the order n_k) are commutators, so the reduced operator's "
             "equation is trace-free given Gamma[0]=0, which follows from Gamma[n]=sum_k n_k gamma_k "
             "(TA on _make_Gamma) and the root multi-index being the zero vector generated first; "
             "propagate() is the order-L Taylor scheme over the sum of both right-hand sides with "
             "dt/ll and stores member 0; the -1 sentinel written for missing links is excluded by the "
             "guards for every sign class of (n_k, link) or multiplied by n_k = 0; the auxiliary "
             "operators are fully reset before their first use in a run (the repaired C15 defect). "
             "The tail of the constructor with generate_indices/_convert_2_matrix/_make_nmp1/_make_Gamma "
             "is interpreted for 1-4 baths and depths 0-3 (thorough: up to 5 baths, depth 5) and yields "
             "the complete index set exactly once level by level, the level offsets, mutually inverse "
             "links with -1 exactly at the boundaries and Gamma[n]=sum_k n_k gamma_k. Not decided: the "
             "index set beyond that bound, zero-coupling and depth limits (numerical).",
        note=BASE_NOTE + "Vs, H Hermitian; lam, gamma, kBT real; index set complete (a missing lower "
             "link only with n_k = 0).",
        technique="index-algebra interpretation of the right-hand-side loop bodies, Taylor-loop "
                  "recogniser with the right-hand sides as opaque linear maps, finite evaluation of "
                  "comparison-only guards, reset-before-use ordering rule, finite-configuration evaluation of "
                  "the constructor's table builders (qv/feval.py)",
        design="3/C16, 9.5"),
    "C17": dict(
        text="Static decision of the structural clauses of C17: RateMatrix.set_rate, interpreted with "
             "the index algebra, leaves every column sum unchanged, touches only column M, keeps the "
             "other rates and makes K[N,M] the given value (identities for all N != M, all matrices), "
             "refuses the diagonal before any store, and an empty matrix starts as zeros - so any "
             "sequence of assignments keeps zero column sums; _propagate_short_exp is the Taylor "
             "scheme around p -> (dt/ll) K p and sum(p) is conserved by one step exactly when the "
             "columns of K sum to zero; get_PropagationMatrix is guarded by is_subset_of, starts from "
             "the identity, steps with the matrix exponential expm(K*step) of the sub-axis step - a form that "
             "is defined for every rate matrix; a diagonalisation of K (not defined for defective rate "
             "matrices such as a chain with equal rates) is reported - recurs U_i = E U_{i-1} from 1, bridges "
             "a shifted start exactly once; the initial populations are not mutated. Not decided: "
             "non-negativity for admissible steps and the truncation error of the Taylor steps.",
        note=BASE_NOTE + "scipy.linalg.expm computes the matrix exponential.",
        technique="index-algebra interpretation of set_rate and of one expansion step, provenance rule on "
                  "the step exponentials (total matrix exponential, no diagonalisation), ordering/pairing "
                  "rules, alias rule",
        design="3/C17"),
    "C05": dict(
        text="Static decision of the structural clauses of C05: (U1) package-wide who-may-call over "
             "resolved calls: only the units context managers, Manager and the public "
             "set_current_units switch units or write the unit tables, so no library call can change "
             "its caller's units outside a context; (U2) energy_units/length_units push the current "
             "units of their own type on a per-object stack before switching and restore the popped "
             "value of the same type unconditionally, keep the context counter balanced, clear the "
             "flag iff zero, and do not swallow exceptions (re-entrant: nesting restores correctly even "
             "for one object); frequency_units inherits this unchanged; (U3) every construction of a "
             "units context in the package is a with-item (or a name only used as one), so exit on "
             "exceptions is guaranteed by the language; (U4) every unit accepted by the contexts has a "
             "conversion factor, internal units have factor one, energy/frequency factors agree, the "
             "conversion functions look up the factor of the current units of their own type and are "
             "mutually inverse for every unit - including the reciprocal nm branch - by scalar "
             "algebra; (U5) every units-managed accessor converts to internal units on store and to "
             "current units on read and every class declaring one inherits both converters of the "
             "right type; (U6) the enforcement decorators test their flags. Hence a value stored "
             "under one context and read under another is the exact conversion and the stored value is "
             "context independent. Not decided: the numerical values of the factors.",
        note=BASE_NOTE + "'with' guarantees __exit__.",
        technique="who-may-call scan over resolved calls, protocol (ordering/pairing) rules on the AST "
                  "of the context managers, with-only construction rule, constant folding of unit "
                  "tables, scalar-algebra inverse proof, MRO-based converter resolution",
        design="3/C05"),
    "C15": dict(
        text="Static decision of C15's structural content: an effect analysis (attribute/element "
             "stores, in-place operations, mutating method calls and callee summaries) over every "
             "propagator method, tensor/rate constructor, the evolution superoperator and the "
             "OpenSystem factory methods reports every modification of a parameter or of an object held "
             "in an input-carrying attribute; each accepted effect is in a frozen table with its reason "
             "and the reason is itself checked (scratch reset before use, inhomogeneous term recomputed "
             "per call, field frequency set/restore paired, protect/unprotect and subtract/recover "
             "paired in nesting order on every normal path); the attributes a propagation may leave on "
             "the propagator form a second frozen table (refinement restored in a finally, dephasing "
             "factors rebuilt per call, flags re-derived from inputs); scratch hierarchy state and "
             "superoperator data are re-initialised before first use. Two genuine open findings are "
             "listed in known_findings.json. Not decided: bit-for-bit reproducibility of NumPy.",
        note=BASE_NOTE + "Methods on unknown receivers are resolved by name (may-call); managed getters "
             "only change representation.",
        technique="effect (mutation) analysis with bottom-up function summaries over the resolved call "
                  "graph, reset-before-use and pairing rules, frozen exception tables with checked "
                  "justifications",
        design="3/C15"),
    "C03": dict(
        text="Static decision of the formula/constant/pairing clauses of C03: dipole_dipole_interaction equals "
             "(d1.d2 - 3(d1.n)(d2.n))/(4 pi eps0 eps_r R^3) as an algebraic identity (index algebra against the "
             "formula written in the same vocabulary); the unit-system constants of core/units.py fold to the "
             "Debye^2/Angstrom^3 -> rad/fs value computed independently from scipy.constants (1e-8 relative); "
             "every element store into the coupling matrix has its mirror with the same value in the same block "
             "and couplings are stored in internal units; build() runs its implementation inside "
             "energy_units('int') and forwards all arguments (so the built system does not depend on the "
             "caller's units); coupling(), transition_dipole(), _get_exindx() and ElectronicState.energy() are "
             "interpreted by a finite-configuration evaluator on every pair of occupation signatures of 2-5 "
             "molecules (thorough: 2-7, up to three excitations) of two- and three-level molecules and equal "
             "the Frenkel statement (J[k,l] x overlap x ladder factors iff one quantum moved between k and l, "
             "zero otherwise and between bands; dipole of the single molecule that changes between adjacent "
             "bands; sum of level energies plus vibrational quanta). Not decided: the generators of the state "
             "list (ordering by band), anything beyond the evaluated bound, relabelling invariance of spectra "
             "as a spectral statement.",
        note=BASE_NOTE + "scipy.constants values; dipoles in Debye, lengths in Angstrom.",
        technique="index/scalar algebra on the interaction formula, numeric constant folding of module "
                  "constants, store-pairing rule, lexical units-context rule, statement-level rules",
        design="3/C03"),
    "C06": dict(
        text="Static decision of the structural clauses of C06: both rate kernels write the depopulation rate as "
             "the negative sum of the off-diagonal column on a zero diagonal, so every column sums to zero "
             "(index algebra, all dimensions and inputs); the uphill Redfield coefficient equals the downhill one "
             "with exchanged indices times exp(-(E_i-E_j)/(kB T)), both reading the transformed correlation "
             "function at the same positive frequency, cut-off symmetric, energies from raw internal-unit data "
             "(scalar algebra on the branches of _set_rates) - hence k(a<-b)/k(b<-a) = exp(-(E_a-E_b)/kT) by "
             "construction; every analytical spectral-density formula types to odd under w -> -w (parity "
             "types); the thermal factor is (1 + coth(w/2kT)) in all three branches with the correct "
             "zero-frequency limit; the tensor's population block is 2 Re sum_m K_m[a,b] Lambda_m[a,b] with the "
             "same transition frequencies as the rate matrix. Not decided: non-negativity, golden-rule values, "
             "accuracy of the numerical half-Fourier transform.",
        note=BASE_NOTE + "coth identity behind C(-w)=exp(-w/kT)C(w) is stated, not re-proved.",
        technique="index-algebra interpretation of the rate kernels, scalar algebra on branch expressions under "
                  "index exchange, parity-type inference over formula ASTs, expression equivalence checks",
        design="3/C06"),
    "C09": dict(
        text="Static decision of the structural clauses of C09: no composite-building constructor reads a loop "
             "variable left over from an earlier loop, the dispatch variable and the builder arguments are "
             "taken from the current iteration (def-use); add_to_data/add_to_data2/__add__ of both classes add "
             "data and reorganisation energy, append all components, require the same axis, (correlation "
             "functions) refuse different temperatures, rebuild operands from stored parameters under internal "
             "units; every component builder accumulates (one open finding: CP29) and registers its "
             "temperature; the external APIs on these paths exist. Not decided: measured reorganisation "
             "energies and FFT parity (numerics).",
        note=BASE_NOTE + "DFunction._add_me adds to existing data.",
        technique="def-use analysis of loop variables (leaked-variable rule), statement-level bookkeeping rules "
                  "with sibling comparison, accumulate-not-overwrite rule, API-existence resolution",
        design="3/C09"),
    "C10": dict(
        text="Thin static claim for C10 (the Poisson law itself is numerical): shift = sqrt(2 S) and get_HR is "
             "its inverse; the ladder operators are a[n-1,n]=sqrt(n) and its transpose, the generator of the "
             "shift operator is (d a^+ - conj(d) a)/sqrt(2) and anti-Hermitian (index algebra), exponentiated "
             "as S diag(exp) S^-1 - the necessary structure for unitary overlaps with displacement sqrt(S); "
             "fc_factor, interpreted on every configuration of 0-3 modes, shift sets and quantum numbers up to "
             "the bound, returns the product over all modes of <n1|D(shift difference)|n2>, computed in the "
             "call (no value remembered under keys that do not determine the overlap) and refuses states with "
             "different mode counts; the unapproximated signature generator is ndindex over all level counts; "
             "dipoles and couplings carry that factor (finite evaluation shared with C03); APIs on the "
             "full-space path exist. Not decided: overlap values, basis truncation, approximate generators.",
        note=BASE_NOTE + "Poisson statistics of the displaced oscillator (textbook).",
        technique="scalar/index algebra on the Huang-Rhys convention and the generator, finite-configuration "
                  "evaluation of fc_factor/coupling/transition_dipole, memo-key provenance rule, API-existence "
                  "resolution",
        design="3/C10, 9.5"),
    "C11": dict(
        text="Static decision of the structural clauses of C11: objects transformed into the eigenbasis in "
             "_calculate_aggregate are transformed back with the inverse matrix under the same condition, with "
             "no return in between (purity); the half-sided transform is laid on the grid it is returned on - "
             "hfft gets n = 2*Nt, the reversal of the fftshift-ordered even-length array is compensated by "
             "roll(.,1), the central cut is [Nt//2 : Nt+Nt//2], the axis is the matching half of the 2Nt-point "
             "conjugate axis, transition frequencies are taken relative to the RWA frequency (both transform "
             "sites, all three axis sites); dipole strengths are scalar products d.d (index algebra), so spectra "
             "scale with the square of a common factor and are rotation invariant; the frequency prefactor is "
             "applied iff raw is false. Not decided: numerical equality with the Fourier integral, sum rules, "
             "relabelling invariance.",
        note=BASE_NOTE + "numpy.fft.hfft length semantics; index arithmetic of fftshift/flipud for even lengths.",
        technique="pairing rule on transformations, shape/offset rules for the FFT pipeline, index-algebra check "
                  "of dipole strengths, placement rules",
        design="3/C11"),
    "C12": dict(
        text="Static decision of the structural clauses of C12: every numpy/scipy attribute used on the call "
             "closure of pathway construction, pathway generation and the 2D calculators exists in the "
             "installed libraries; M4 folds to [[4,-1,-1],[-1,4,-1],[-1,-1,4]]/30; the field factor F4e[k] and "
             "the dipole factor F4n[k] are, for each k, the same perfect matching of the four interactions, "
             "the three matchings are all three, and the prefactor is sign * F4e.M4.F4n * population (index "
             "algebra on the defining stores) - the conditions under which F4e.M4.F4n is the exact isotropic "
             "average; every factor is a product of two scalar products covering the four vectors once each, "
             "hence invariant under a common rotation of dipoles or of polarisations and of degree one in each "
             "dipole; signal and process tables partition the pathway types (total = rephasing + "
             "non-rephasing + double coherence). Not decided: cancellation of cross peaks for uncoupled "
             "molecules (values of line shapes and two-exciton energies).",
        note=BASE_NOTE + "Textbook isotropic rank-four average.",
        technique="API-existence resolution over call closures, constant folding, index-algebra comparison of the "
                  "orientational factors, table partition check",
        design="3/C12"),
    "C13": dict(
        text="Static decision of the structural clauses of C13: every transform of centred data goes "
             "ifftshift -> (i)fft -> fftshift (fftshift on the input is wrong for all odd lengths) and "
             "un-shifted inputs are the FFT-ordered Hermitian extensions built in place; forward and backward "
             "prefactors multiply to one under the conjugate step dw = 2 pi/(N dt), for both pairings and the "
             "upper-half factor 2 (scalar algebra); the Hermitian extension stores conj(y[j]) at extended "
             "length - j for j = 1..N-1; the axis conjugation maps a time axis to a frequency axis and back to "
             "the same start, step, length and stored conjugate start, and vice versa, for complete and "
             "upper-half axes with N//2 kept symbolic (covers even and odd), odd upper-half frequency axes are "
             "refused. Not decided: equality with the direct Fourier sum as numbers.",
        note=BASE_NOTE + "Model fftshift(c*fftfreq(n,d))[k] = c*(k-n//2)/(n*d); ifft(fft(x)) = x.",
        technique="call-nesting rule on FFT calls, scalar algebra over a small axis-expression evaluator, affine "
                  "index relations",
        design="3/C13"),
    "C14": dict(
        text="Static decision of the structural clauses of C14: both Boltzmann sites compute "
             "exp(-(E - min E)/(kB T)) normalised by its own sum (shift invariant: no temperature at which all "
             "weights underflow), the division by kB T is dominated by the zero-temperature guard whose branch "
             "puts the population on argmin E (or index 0 inside an eigenbasis context), the weights are "
             "w/sum(w) on the diagonal of a fresh zero matrix, the impulsive state is D.rho.D; a path-sensitive "
             "dataflow shows that values read from X.data under eigenbasis_of(X) are wrapped into basis-managed "
             "objects only under eigenbasis_of(X) (the state is the same physical state inside and outside a "
             "context); energies divided by kB_intK*T are read under energy_units('int') (who-may-call + "
             "lexical rule). Not decided: positivity beyond diagonal non-negative weights.",
        note=BASE_NOTE + "exp(0)=1 keeps the normalising sum >= 1.",
        technique="def-use pattern rules on Boltzmann exponents, guard-dominance rule, path-sensitive taint "
                  "(basis typing) over structured control flow, who-may-call and lexical units-context rules",
        design="3/C14"),
    "C18": dict(
        text="Static decision of the structural clauses of C18: for DataSaveable and MatrixData the extension "
             "lists, save dispatch and load dispatch agree, each format pairs a writer with the matching reader "
             "and key (npz 'data', mat 'data'), axis packing is undone on load, every numpy/scipy call on these "
             "paths exists, both text importers fall back to the complex parser; whole-object save/load go "
             "through one versioned pickle parcel; storage of units-managed classes is internal (C05-U5 "
             "instances), so pickles are unit-context free. One open finding: objects that are Saveable and "
             "BasisManaged pickle their basis tag (saving inside an eigenbasis context). Not decided: byte "
             "contents of pickles, scipy's shape conventions for .mat.",
        note=BASE_NOTE + "Writers/readers of one numpy/scipy format are mutually inverse.",
        technique="table agreement by constant folding of literal lists and dispatch chains, writer/reader "
                  "pairing, API-existence resolution, sibling comparison, mechanism rule for pickled basis tags",
        design="3/C18"),
    "C19": dict(
        text="Static decision of C19's structural content: the process and signal tables partition the pathway "
             "types; each of the view helpers sums, into a fresh zero array, exactly the stored cells of its "
             "class; exhaustive finite evaluation (5 storage resolutions x 4 data-type classes x tag) of the "
             "getter and setter decision trees combined with the branches of _add_data shows that every "
             "admissible addition reads the addressed cell, adds and writes the same cell, and every other "
             "combination is refused before any store (finer-than-storage additions refused); conversion paths "
             "strictly descend, every step has an elementary conversion that builds a new storage from sums "
             "over the partition and only then replaces the old one, processes->signals is absent, raising the "
             "resolution is refused. Hence the total read back is the sum of what was added.",
        note=BASE_NOTE + "dict/list semantics.",
        technique="constant folding (partition check), exhaustive finite-configuration evaluation of "
                  "comparison-only decision trees, statement-level rules on accumulators and conversions",
        design="3/C19"),
    "C20": dict(
        text="Static decision of C20 for all process counts, ranks and ranges: the per-rank loop body of "
             "_calculate_ranges is interpreted with the scalar algebra under each of the five ordering classes "
             "of (rank vs 0, rank vs remainder) - all the decision structure can distinguish - and the "
             "resulting affine boundaries satisfy N1(0)=start, N2(r)=N1(r+1) for every feasible transition "
             "between classes, N2(size-1)=stop given stop-start=q*size+rem, block sizes in {q,q+1}; the result "
             "depends on start; wrappers distribute range(0,len); the three callers accumulate into a zero "
             "array inside the parallel region and sum-reduce it before the region closes; independently, the "
             "source of _calculate_ranges and its wrappers is interpreted concretely for all process counts "
             "<= 8 (thorough 16), lengths <= 20 (50) and three starts and partitions the range. Not decided: "
             "MPI behaviour.",
        note=BASE_NOTE + "// and % satisfy the division identity; allreduce(sum) adds.",
        technique="scalar-algebra abstract interpretation per ordering class (exhaustive case split) with "
                  "polynomial identity checking, def-use, region ordering/pairing rule, concrete finite evaluation",
        design="3/C20, 9.5"),
}

NOT_YET = "check not built yet in this round (see DESIGN.md section 3 for the planned rules)"


def build():
    props = []
    with open(os.path.join(VERIF, "properties.jsonl")) as fh:
        for line in fh:
            line = line.strip()
            if line:
                props.append(json.loads(line)["id"])
    checks = []
    na = []
    for pid in props:
        c = CLAIMS.get(pid)
        if c is None:
            na.append({"property_id": pid, "reason": NOT_APPLICABLE.get(pid, NOT_YET)})
            continue
        checks.append({
            "property_id": pid,
            "quick_cmd": "./check %s --tier quick" % pid,
            "thorough_cmd": "./check %s --tier thorough" % pid,
            "evidence_file": "/verif/evidence/%s.json" % pid,
            "replay_cmd_template": "./check --replay {path}",
            "engine": "qv",
            "level_claimed": {"category": "other",
                              "text": c["text"] + ((" " + SECOND_PASS[pid][0]) if SECOND_PASS.get(pid, ("",))[0] else "")
                              + ((" " + THIRD_PASS[pid][0]) if pid in THIRD_PASS else "")
                              + ((" " + FOURTH_PASS[pid][0]) if pid in FOURTH_PASS else "")
                              + ((" " + FIFTH_PASS[pid][0]) if pid in FIFTH_PASS else "")
                              + ((" " + SIXTH_PASS[pid][0]) if pid in SIXTH_PASS else "")
                              + ((" " + SEVENTH_PASS[pid][0]) if pid in SEVENTH_PASS else "")
                              + ((" " + EIGHTH_PASS[pid][0]) if pid in EIGHTH_PASS else "")
                              + ((" " + NINTH_PASS[pid][0]) if pid in NINTH_PASS else ""),
                              "design_ref": c["design"] + (", 9.5" if "9.5" not in c["design"] else "") + ", 9.8, 9.9, 9.10, 9.11, 9.12, 9.13, 9.14, 9.15, 9.16, 9.17, 9.18"},
            "level_note": c["note"],
            "technique": c["technique"] + (("; " + SECOND_PASS[pid][1]) if SECOND_PASS.get(pid, ("", ""))[1] else "")
            + (("; " + THIRD_PASS[pid][1]) if pid in THIRD_PASS else "")
            + (("; " + FOURTH_PASS[pid][1]) if pid in FOURTH_PASS else "")
            + (("; " + FIFTH_PASS[pid][1]) if pid in FIFTH_PASS else "")
            + (("; " + SIXTH_PASS[pid][1]) if pid in SIXTH_PASS else "")
            + (("; " + SEVENTH_PASS[pid][1]) if pid in SEVENTH_PASS else "")
            + (("; " + EIGHTH_PASS[pid][1]) if pid in EIGHTH_PASS else "")
            + (("; " + NINTH_PASS[pid][1]) if pid in NINTH_PASS else ""),
        })
    man = {
        "version": 1,
        "setup_cmd": "/venv/bin/python -W ignore -B -m qv.selfcheck",
        "hooks": {
            "guard": "QUANTARHEI_VERIF",
            "enable": "none needed: the checks are static and read /repo's working tree; no "
                      "instrumentation was added to the repository",
            "baseline_off_cmd": "cd /repo && /venv/bin/python -m pytest -ra -q -p no:cacheprovider "
                                "--timeout=900 --continue-on-collection-errors",
            "source_commits": [],
            "add_only": True,
        },
        "engines": [
            {"name": "qv", "path": "/verif/qv",
             "serves_properties": [c["property_id"] for c in checks],
             "kind_free_text": "purpose-built static analyser for quantarhei (pure stdlib, ast-based): "
                               "loader/resolver with MRO and call resolution, index-algebra abstract "
                               "interpreter (TA), scalar algebra, statement CFG, who-may-call / pairing / "
                               "typestate rules, finite-configuration evaluation, API-existence"},
        ],
        "checks": checks,
        "not_applicable": na,
        "notes": "Static analysis only: every check re-parses /repo/quantarhei on each run and never "
                 "imports or executes it. Genuine defects found were repaired in /repo by 'fix:' "
                 "commits (listed as fixed in known_findings.json); open ones are listed there as "
                 "open and are printed as KNOWN-FINDING.",
    }
    return man


NOT_APPLICABLE = {}


# clauses added in the second pass (DESIGN 9.5); appended to the claim text and to the technique
SECOND_PASS = {
    "C01": ("Also decided: secular masks are written through the basis-managed property (not the raw storage); every "
            "attribute of self read and every package-internal call made by the constructors/initialisers of the "
            "covered tensor classes exists / supplies the required arguments.",
            "descriptor-resolution rule, attribute-existence and call-arity analyses"),
    "C02": ("Also decided: pure-dephasing factors are re-derived from the time step in force (derived-state "
            "freshness); state-vector evolutions are converted from the rotating frame component-wise with "
            "unit-modulus phases (TA); with absolute conversion times both propagators bring the initial state "
            "into the rotating frame at the first point of the axis.",
            "derived-state freshness (dominating deriver call or re-deriving writers), frame-origin protocol rule"),
    "C03": ("Also decided: no in-place arithmetic on an array that has the element type of the caller's positions or "
            "dipoles.", "element-type rule on in-place operators"),
    "C04": ("Also decided: every provider of the diagonalisation matrix returns, on every path, the eigenvectors "
            "of numpy.linalg.eigh of the current data.", "all-paths return-provenance rule"),
    "C05": ("Also decided: methods that compute under energy_units('int') read units-managed properties only "
            "inside that protection, including properties of objects the code has typed as FrequencyAxis.",
            "protected-read analysis of units-managed descriptors (lexical context + isinstance typing)"),
    "C06": ("Also decided: when a temperature is requested, the thermal factor and the recorded parameters use it "
            "(three-valued flow of the 'T' entry); rate and tensor kernels do not write into the system-bath "
            "operators or Hamiltonian they are given (effect analysis with field aliases).",
            "three-valued dictionary-entry flow, effect analysis with field aliases"),
    "C07": ("Also decided: the time-independent and the time-dependent Redfield implementations integrate over the "
            "same window with and without a cut-off time.", "sibling cross-check of the integration windows"),
    "C08": ("Also decided: the running value owns its storage (no rebinding to the stored first step); the stored "
            "superoperator transforms covariantly into a basis context, ranks 4 and 5, using only S^-1 S = 1.",
            "aliasing rule, covariance identity (TA) on the inherited transform"),
    "C09": ("Also decided: component builders carry no per-component option on self; every builder uses the energy "
            "entries of its parameter dictionary in the unit system it receives them in (RAW/INT typing through "
            "the constructor dispatch); attributes of self read by the builders exist.",
            "stateless-builder rule, unit-state typing of parameter dictionaries, attribute-existence analysis"),
    "C11": ("Also decided: the operators handed to the calculator do not share storage with arrays the aggregate "
            "rewrites in place.", "shared-storage (aliasing) analysis"),
    "C12": ("Also decided: every pathway generator builds a well-formed double-sided diagram that ends in a "
            "population and takes the width/dephasing of each tagged interval from the coherence present in it "
            "(symbolic |ket><bra| tracking over 15 constructions); package-internal calls on the path supply "
            "the arguments their callees take.", "symbolic diagram tracking, call-arity analysis"),
    "C13": ("Also decided: axis conversions and Fourier transforms read the units-managed properties of frequency "
            "axes under internal units only.", "protected-read analysis of units-managed descriptors"),
    "C14": ("Also decided: the matrix handed to the Boltzmann routine is read inside a basis context that fixes the "
            "basis the request defines (weak coupling: yes; strong coupling: no - recorded as a known finding).",
            "defining-basis rule (lexical basis context of the managed read per request branch)"),
    "C15": ("Also decided: the setter that restores the per-call refinement assigns on every path; the effect "
            "analysis follows names bound to a part of an input.", "total-setter rule, field aliases"),
    "C16": ("Also decided: the open-system getters build a hierarchy of the requested depth in the call.",
            "all-paths return-provenance rule"),
    "C17": ("Also decided: the result array is a fresh float array whatever the element type of the initial "
            "populations.", "allocation element-type rule"),
    "C18": ("Also decided: the packed axis+data table has an element type derived from the data; no saveable class "
            "customises pickling/copying in a way that recomputes from units- or basis-managed properties.",
            "allocation element-type rule, pickling-hook closure analysis over 80 classes"),
    "C19": ("Also decided: the finite evaluation ranges over tags in {None, falsy, truthy}; the storage-resolution "
            "label is written only by constructors, the guarded first addition and the conversion loop.",
            "who-may-write rule with guard dominance"),
    "C20": ("", ""),
}


# clauses added in the third pass (DESIGN 9.8); appended after the second-pass text
THIRD_PASS = {
    "C01": ("Third pass: loops that fill or mask a tensor cover the allocated extent of every axis (axis-coverage "
            "tracking in the TA front end); no element-wise write goes through a view of the tensor data.",
            "axis-coverage tracking (loop bound vs allocated extent), view-provenance rule"),
    "C02": ("Third pass: the Hamiltonian matrix is read through its basis-managed property by the routine that uses "
            "it (no representation cached on the propagator); propagators and evolutions read the Hamiltonian and the "
            "frame frequencies under internal units; every generator component read under a flag was assigned on every "
            "constructor path that sets the flag (pure dephasing without a relaxation tensor included).",
            "cached-managed-read analysis, internal-units discipline of calculators (lexical block or protected callers), "
            "constructor typestate (flag-guarded reads vs constructor paths)"),
    "C03": ("Third pass: the operators handed out do not share storage with arrays the aggregate rewrites in place.",
            "shared-storage (aliasing) analysis"),
    "C05": ("Third pass: bath-function constructors store energy parameters independently of the caller's units, also in "
            "their own loops; every class of quantarhei.qm that keeps a Hamiltonian to compute with reads "
            "units-converting accessors under internal units; a set_X that converts has a get_X that converts back; "
            "converting functions leave their arguments intact; the array path of the wavelength conversion holds reciprocals.",
            "unit-state typing of constructor loops, internal-units discipline of calculators, accessor-pair agreement, "
            "argument-effect rule, allocation element-type rule"),
    "C06": ("Third pass: the Lambda operators are filled for every system state; donor and acceptor arguments of the "
            "Foerster integral carry the donor and acceptor index; rate matrices and the Redfield tensor read the "
            "Hamiltonian, reorganisation energies and Fourier-transformed correlation functions under internal units.",
            "role binding through callee parameters, internal-units discipline of calculators"),
    "C07": ("Third pass: the tensor-form and operator-form propagation routines are the same Taylor scheme; both "
            "Redfield tensors are calculated under internal units on every way of initialising them.",
            "Taylor recogniser on the two routines, internal-units discipline of calculators"),
    "C08": ("Third pass: direct propagation with pure dephasing derives its factors from the step in force; the "
            "superoperator, its conversion from the rotating frame and the propagator behind it work under internal units; "
            "every kind of time argument apply() documents reaches its branch (isinstance members are classes).",
            "derived-state freshness, internal-units discipline of calculators, isinstance-member resolution"),
    "C09": ("Third pass: the constructors' own loops add energy entries in internal units; running integrals of bath "
            "functions are taken with respect to their axis (quadrature spacing); nothing built after the component loop "
            "uses a value of the last component only; a refused addition leaves the left operand unchanged; every object "
            "rebuilt from stored parameters is constructed under internal units.",
            "unit-state typing of constructor loops, quadrature-spacing rule, def-use rule across the component loop, "
            "refuse-before-mutate ordering rule, taint of stored parameters into constructor calls"),
    "C11": ("Third pass: the frequency axis is shifted by the rotating-frame frequency of the propagated signal.",
            "frame-frequency provenance rule"),
    "C12": ("Third pass: transition dephasing and transition width are sibling look-ups (recorded known finding for the "
            "two band-crossing branches); screening thresholds scale like the quantities they are compared with.",
            "sibling cross-check, scaling-degree (dimensional) analysis"),
    "C14": ("Third pass: the tensor builders leave no basis protection on the system's Hamiltonian.",
            "paired protect/unprotect rule (shared with C15-E4)"),
    "C15": ("Third pass: builders return stored results only under a key that covers every argument the result depends on.",
            "stored-result key analysis"),
    "C16": ("Third pass: the per-bath getters forward the index they are given; the hierarchy and its propagator read "
            "energies under internal units.",
            "index-forwarding rule, internal-units discipline of calculators"),
    "C18": ("Third pass: the index of a save directory is rebuilt from the directory on every save.",
            "derived-state freshness of the directory index"),
    "C19": ("Third pass: reading a view never writes into the storage (ownership states of the accumulators); stored "
            "cells own their arrays and spectra built from a response get copies.",
            "path-sensitive ownership-state analysis, storage-ownership rule"),
    "C17": ("Third pass: the step exponentials of the propagation matrix are matrix exponentials defined for every rate "
            "matrix (no diagonalisation).", "provenance rule on the step exponentials"),
    "C20": ("Third pass: the public block helpers hand every rank exactly its block, with and without indices.",
            "finite evaluation of the helpers"),
}


# clauses added in the fourth pass (DESIGN 9.9)
FIFTH_PASS = {
    'C01': ('Fifth pass: every secularize implementation converts from the operator form first; a cut-off part is not added in place to a full-length tensor; a tensor completed incrementally is calculated from freshly zeroed data.',
            'sibling rule over secularize implementations, dominance of an allocation before updateStructure, structural rules ordered before index algebra'),
    'C02': ("Fifth pass: the conjugated system operators of the operator-form routines are Hermitian conjugates in a complex element type; at() of the density-matrix evolutions indexes the nearest grid point; the scalar product of state vectors and the inverse of a Hamiltonian's eigenvector matrix conjugate. Seeding round 5: phase factors of the conversions from the rotating frame take their time from the points of the axis.",
            'TA adjoint obligation, hand-out rules, idiom tables for conjugation; absolute-time rule on convert_from_RWA'),
    'C03': ("Fifth pass: 'done already' switches and flag-guarded fills (diagonalized mark, coupling matrix) are cleared or kept in step by every method that rebuilds what they depend on. Seeding round 5: the builders' converting setters use the converted value wherever they touch their storage.",
            'stored-result analysis: switch and helper forms; converting-setter consistency (proxy of C05-U15)'),
    'C04': ('Fifth pass: managed properties are not shadowed in subclasses; at() of evolutions hands out owned data; in-place transform() methods promote their storage first; __exit__ contains a failing transform; public deep copies are registered; readers of the site-basis system-bath operators establish the basis (six open findings). Seeding round 5: a stored value computed from basis-managed data is reset by transform() (a guard on the basis id is not enough).',
            'MRO scan, dominance of a promotion statement, contained-failure protocol rule, reader scan of sbi.KK; stored-result analysis with the transform-reset obligation'),
    'C05': ('Fifth pass: nothing read through a units-managed property goes into its raw storage, no element is assigned through such a property, and no units-managed object is created under the current units from internal values. Seeding round 5: converting setters neither store nor compare the argument as supplied next to the converted value; values read under internal units are not assigned to managed properties outside the block.',
            'RAW/INT taint into raw storage and into constructors (dominance-aware linear order); converting-setter consistency, INT-value-into-managed-setter rule'),
    'C07': ("Fifth pass: where the operator form conjugates a system operator it takes the Hermitian conjugate. Also: the time-dependent tensor is read on its own grid - bound on the tensor's axis, rounded step ratio compared back, index advanced by the stride, in tensor and operator form.",
            'idiom table for the adjoint; grid rules on the routines that read RelaxationTensor.data / Lm / Ld with a running index'),
    'C08': ("Fifth pass: what the step-by-step mode keeps between calls is basis-managed; both modes record the rotating frame and accept the same optional generators; apply() handles 'all' and refuses lists that are no time axis.",
            'managed/plain operand scan, sibling agreement of entry points, parameter-kind rules'),
    'C09': ("Fifth pass: the three bath-function classes agree on their energy parameters and on the units of shared accessors; interpolation splines are dropped whenever the data change; the temperature refusal is demanded of spectral densities too (two open findings). Seeding round 5: every dictionary appended to the parameter record is the object's own.",
            'sibling tables and accessors, stored-result analysis with hooks; fresh-dictionary rule on the constructors'),
    'C10': ("Fifth pass: reset-then-accumulate addresses one element; methods called on the aggregate's molecules exist in Molecule; the dipole of an element is that of the levels the molecule changes between; sub-modes are selected by the molecule's position.",
            'element-agreement rule, API-existence over self.monomers, provenance of the get_dipole levels, counter/enumerate rule'),
    'C11': ('Fifth pass: exciton widths take the site coefficients of their own exciton. Also: all lines take their lifetime term alike, rows of the eigenvector matrix come from the state table, cross-correlation terms are summed over all ordered pairs; the mock absorption calculator reads its axis under internal units.',
            'index-role rule of C12-I; sibling-condition rule, state-table rule, loop-coverage rule'),
    'C12': ('Fifth pass: exciton widths weight site widths with SS[site, exciton].',
            'index-role rule on accumulations over sites'),
    'C14': ('Fifth pass: states of equal lowest energy share the population at T = 0 (two open findings); the bath is dereferenced only where present, the temperature asked for through has_temperature(); no value is returned on an unsound summary flag.',
            'mask-form recogniser, guarded-dereference rule, summary-flag soundness'),
    'C15': ('Fifth pass: option setters of the propagators are absolute (no stored value computed from the attribute it overwrites).',
            'self-reference rule on set* methods'),
    'C17': ('Fifth pass: a rate matrix owns a fresh floating-point array.',
            'allocation/ownership rule on the constructor'),
    'C18': ('Fifth pass: exported tables have an element type computed from axis and data, the rank of 1-D data is stored in Matlab files and restored, importers assign internal values to managed setters only under internal units.',
            'allocation-type rule, stored-rank sibling rule, INT-value-into-managed-setter rule'),
    'C19': ('Fifth pass: every store into the 2D storage is behind a reachable shape refusal; resolution names compared are resolutions; views are typed; adding data and taking views restore the data flag.',
            'guard-reachability, literal-domain and save/restore typestate rules'),
    'C20': ('Fifth pass: a helper that does not distribute records its block exactly in the outermost region; allreduce writes back into arrays of any rank. Seeding round 5: reductions act exactly where the helpers divide the work.',
            'branch-wise recording rule, rank-agnostic write-back rule; sibling condition of reductions and helpers'),
}


FOURTH_PASS = {
    "C01": ("Fourth pass: the operator-form action is interpreted also when the conjugated operators are obtained by axis-"
            "permuting transposes.", "TA interpretation of numpy.transpose with axes"),
    "C02": ("Fourth pass: the requested expansion order is handed on by every delegating routine; evolution classes define "
            "the frame flag at construction and derived evolutions carry it.", "option-forwarding rule, frame-flag rules"),
    "C03": ("Fourth pass: build() has no stored-result or 'already built' short-cut that other setters do not invalidate.",
            "stored-result (memo) analysis"),
    "C04": ("Fourth pass: copies of basis-managed objects made by the library are registered with their basis.",
            "copy-registration rule"),
    "C05": ("Fourth pass: units-managed objects keep no converted value across calls.", "stored-result (memo) analysis"),
    "C07": ("Fourth pass: a converted tensor is in the same flag state as one created in tensor form; the operator form "
            "owns the operators it transforms in place.", "flag-state sibling rule, stored-input alias analysis"),
    "C08": ("Fourth pass: no elemental step or other result is kept across calculations; at() hands out a superoperator "
            "that owns its data.", "stored-result (memo) analysis, ownership rule on the returned object"),
    "C09": ("Fourth pass: queries are answered from the current content (no kept temperature or transform); the record of "
            "components belongs to the object and is not rewritten by queries.",
            "stored-result (memo) analysis, record-intact and own-container rules"),
    "C10": ("Fourth pass: the overlap table is not cut at a fixed size and the operator basis is not below the confirmed size.",
            "table-extent and basis-size rules"),
    "C11": ("Fourth pass: line strengths are computed from the current representation of the dipoles (nothing kept across a "
            "transformation); the calculator reads the frequency axis under internal units.",
            "stored-result (memo) analysis, internal-units discipline"),
    "C12": ("Fourth pass: reading a signal does not change what is stored (rule of C19-F).", "ownership-state analysis"),
    "C13": ("Fourth pass: transforms are computed from the current values; the inverse transform on an upper-half time axis "
            "has the prefactor of the Fourier sum.", "stored-result (memo) analysis, scalar algebra on the prefactor"),
    "C14": ("Fourth pass: the reorganisation energy subtracted from a band state is that of the molecule excited in it.",
            "index-kind rule (state -> electronic state table)"),
    "C15": ("Fourth pass: no result of an earlier call is kept by propagators, hierarchy and tensors; arrays handed in are not "
            "written through views; attributes bound to arguments are not written in place.",
            "stored-result (memo) analysis, array alias analysis, stored-input alias analysis"),
    "C16": ("Fourth pass: the result of the hierarchy propagator is marked as rotating-frame and the initial state enters the "
            "frame at the first time point.", "frame protocol rule"),
    "C17": ("Fourth pass: neither the rate matrix nor an argument is written in place, also not through views; no exponential "
            "kept across calls.", "array alias analysis, stored-result (memo) analysis"),
    "C18": ("Fourth pass: exporters and importers of managed classes go through the managed property.",
            "raw-storage access rule over 96 export/import methods"),
    "C19": ("Fourth pass: no 'flag already set' short-cut over responses that can be changed independently.",
            "stored-result (memo) analysis, effect-skip form"),
    "C20": ("Fourth pass: every array filled inside a distributed loop and used afterwards is sum-reduced.",
            "reduction-pairing rule over all arrays written in the loop"),
}

SIXTH_PASS = {
    "C02": ("Seeding round 6: an evolution does not read the caller's state object whose values it copied at construction; the "
            "axis look-ups behind at() are translation covariant.", "borrowed-copy rule over the evolution classes; affine typing of ValueAxis"),
    "C03": ("Seeding round 6: the energy of an aggregate state is of first degree in the units factor (no value converted twice).",
            "finite evaluation with a symbolic units factor"),
    "C05": ("Seeding round 6: no generator of the package suspends inside a units context.", "lexical rule over all yields"),
    "C06": ("Seeding round 6: every quadrature call of the package carries the spacing of its axis.", "call-site rule over all integrals"),
    "C08": ("Seeding round 6: the grid point found for a time does not depend on where the axis starts.",
            "affine typing (points, displacements, pure numbers) of the ValueAxis look-ups"),
    "C09": ("Seeding round 6: an added component replaces the data only of a function that holds nothing.",
            "sentinel analysis of the test that guards the initialiser"),
    "C10": ("Seeding round 6: the parallel lists of the Franck-Condon look-up table are changed in step.", "lockstep rule per method and block"),
    "C11": ("Seeding round 6: couplings are computed in floating point whatever the element type of positions and dipoles.",
            "element-type inheritance analysis of in-place operations"),
    "C12": ("Seeding round 6: every element of the eigenvector matrix in the width formulas has a site label first and an "
            "eigenstate label second.", "index-role inference per loop nest"),
    "C13": ("Seeding round 6: where the conjugation of axes reads self.min, that property is the first point on every path.",
            "assumption of the scalar algebra turned into an obligation"),
    "C14": ("Seeding round 6: a temperature of zero is not taken for 'not given'.", "sentinel analysis of None-default parameters"),
    "C16": ("Seeding round 6: the rotating frame is left at the absolute times at which the propagator entered it.", "shared rule C02-M"),
    "C17": ("Seeding round 6: the populations handed out are of degree one in the initial populations.",
            "degree analysis (zero / constant / linear / other) with loops to a fixed point"),
    "C18": ("Seeding round 6: imported arrays are read into memory, never mapped onto the file.", "call-site rule over all reading calls"),
    "C19": ("Seeding round 6: what is saved before the data flag is switched covers every part of the flag.",
            "def-use of the saved value against the attributes set_data_flag writes"),
    "C20": ("Seeding round 6: a block handed out on a short cut before the level branch is recorded as well.", "all-returns rule of the block helpers"),
}

SEVENTH_PASS = {
    "C01": ("Second hunt and seeding round 7: a recalculated tensor is secularized again; a secular mask addresses the last four "
            "indices for every rank of data that reaches it.", "stored-result analysis (switch written as a block); rank analysis of the mask stores"),
    "C02": ("Second hunt and round 7: every propagation routine without a field is of degree one in the initial state; evolutions "
            "handed out by the evolution superoperator carry its frame; |psi><psi| has the conjugate on the column factor; the "
            "Hamiltonian keeps no matrix from an earlier call.", "degree analysis over the routines and their helpers; ket-bra orientation rule; stored-result analysis of Hamiltonian"),
    "C03": ("Round 7: a molecule handed over as an object is found by identity, not through its name.", "lookup-by-label rule on the methods that edit the aggregate"),
    "C05": ("Round 7: the reciprocal unit is treated apart wherever the factor of a variable unit is used.", "guard rule on every read of conversion_facs_energy[<variable>]"),
    "C06": ("Round 7: the Matsubara series is summed completely.", "every-pass accumulation rule with two-sided skip tests"),
    "C07": ("Round 7: no apply() stores its result into the operand's existing array.", "in-place store rule over the apply() methods"),
    "C08": ("Round 7: the Hamiltonian a superoperator is computed from keeps no matrix from an earlier basis context.", "stored-result analysis of Hamiltonian"),
    "C09": ("Second hunt: separate containers per bath function; accessors read the components as the builders write them; "
            "copying the components of a function into itself terminates.", "list-repetition rule, keys-known-to-builders rule, self-aliasing loop rule"),
    "C10": ("Round 7: the dipole element of a direct 0->2 transition is the 0->2 dipole times the overlaps.", "finite evaluation over signatures with three levels"),
    "C11": ("Round 7: state energies include the ground-state energies of the molecules that are not excited.", "finite evaluation shared with C03-G"),
    "C12": ("Second hunt and round 7: default selections test the entry they use; the squared dipoles that select pathways are scalar products.",
            "sibling rule on the four selections; scalar-product forms (dot, einsum letters, sum of squares)"),
    "C13": ("Round 7: a copy of an axis carries every stored constructor parameter.", "constructor-parameter coverage of copy()"),
    "C14": ("Round 7: the eigenbasis comes from a decomposition on every path.", "def-use of the returned matrix from eigh"),
    "C16": ("Round 7: propagation is linear in the initial state; the single-state short cut for site operators is guarded by the "
            "count of band states.", "degree analysis (shared); guard rule on the projector loops of Aggregate.build"),
    "C17": ("Second hunt: every replacement of a rate matrix's array stores a float copy; axis comparisons are translation covariant.",
            "setter scan over the MRO; affine typing (shared)"),
    "C18": ("Second hunt and round 7: text files keep the rank; an axis filled from a file is changed as a whole; save/load entry points "
            "call their delegates with arguments these take; the parcel machinery does not reposition a file it was given.",
            "savetxt/loadtxt rule, axis-state rule, call-signature check, stream-position rule"),
    "C19": ("Second hunt and round 7: the argument of an addition is checked for its shape before the sum; a refused first addition is "
            "rolled back; a 'not there' handler of a view helper stands for one cell.", "refusal-before-effect and roll-back rules, try-scope rule"),
    "C20": ("Round 7: the array helper distributes rows (arrays with several columns are evaluated).", "finite evaluation with two-dimensional arrays"),
}

NINTH_PASS = {
    "C04": ("Round 9: a managed object built from the data of another gets an array of its own, also when the data come through an "
            "accessor that returns a view; the composition of stacked transformations is decided by role.",
            "view-of-self rule through accessors; composition-order rule by role"),
    "C16": ("Round 9: the right-hand sides of the hierarchy are linear in the auxiliary operators (no conjugate or transpose of a value "
            "derived from them), so non-Hermitian initial operators are propagated correctly.", "taint rule on conjugation / transposition"),
    "C02": ("Round 9: the array in which the system-bath interaction collects its operators has a fixed floating element type.",
            "element-type rule on arrays filled operator by operator"),
    "C01": ("Round 9: sums of Foerster rates taken at once (numpy.sum over one axis of the rate array, before the loop nest) are part "
            "of the interpreted assembly.", "index algebra with sums over one axis of an array"),
    "C03": ("Round 9: a method that takes its parameters as a dictionary leaves the caller's dictionary (and the shared default) as it is.",
            "argument-mutation rule on dictionary parameters"),
    "C07": ("Round 9: the operator components a tensor transforms in place are its own arrays, never an array of the system-bath "
            "interaction kept without a copy.", "stored-input alias analysis (shared with C15-E3) on the tensors with an operator form"),
    "C08": ("Round 9: the generator a superoperator is computed from owns its operator components (two forms built from one "
            "interaction do not transform one array twice).", "stored-input alias analysis (shared with C15-E3)"),
    "C10": ("Round 9: the list of modes of a molecule and the counter the state generators run over move in step.",
            "list/counter pairing with exits in between"),
    "C11": ("Round 9: an attribute of the caller's time axis that a calculator saves, overwrites and restores is restored on every way out.",
            "save/overwrite/restore pairing over quantarhei.spectroscopy"),
    "C13": ("Round 9: what an axis is told about its conjugate axis at construction is kept on every path through the constructor.",
            "constructor-parameter analysis, all-paths mode"),
    "C14": ("Round 9: a state handed out inside nested contexts reaches the current basis through the outer-first product of the "
            "stacked transformations (decided by role, shared with C04-B5).", "composition-order rule by role"),
    "C20": ("Round 9: the range calculators are functions of their arguments - of the shared configuration they read only size and "
            "rank, or what they stored in the same call.", "read-set rule on the shared configuration"),
}

EIGHTH_PASS = {
    "C01": ("Third and fourth hunt, round 8: the non-secular non-equilibrium Foerster tensor preserves the trace column by column; "
            "updateStructure() gives zero column sums whatever stood on the diagonal.",
            "index algebra on the NE Foerster assembler; linear algebra in (trace, diagonal) on the depopulation statement"),
    "C02": ("Round 8: a store into a basis-managed tensor inside a basis context is made from managed reads.", "managed-store / managed-read pairing"),
    "C03": ("Round 8 and fourth hunt: the operators keep no strengths across a change of basis - a stored basis-dependent value is "
            "tested only after the managed data were touched; a rebuilt aggregate derives its bath again; couplings are read at the "
            "positions of the molecules in the signatures.",
            "stored-result analysis with the lazy-transformation obligation and the relay-flag form"),
    "C04": ("Third and fourth hunt, round 8: basis stacks move in lockstep; managed stores come from managed reads; __enter__ fails "
            "before it touches the bookkeeping; questions put to a managed object are answered from the managed property.",
            "lockstep rule; managed-store rule; fallible-before-effect ordering; raw-read rule on value-returning methods"),
    "C06": ("Round 8: sums over sites run over the site index of the eigenvector matrix in every rate and tensor builder.",
            "axis-role typing (site / eigenstate) of subscripts, products, transposes and einsum letters"),
    "C08": ("Round 8 and fourth hunt: a flag given to a constructor is the flag of the new object; conversion and application of a "
            "rotating-frame superoperator account for the phases at the first time of its axis.",
            "constructor path analysis with callee write summaries; frame-origin rule"),
    "C09": ("Round 8: a temperature given explicitly replaces the one held in the components.", "explicit-argument rule on None-default parameters"),
    "C10": ("Round 8: the Franck-Condon look-up compares the shift itself.", "exact-key rule on the searching methods"),
    "C05": ("Fourth hunt: what a function on a frequency axis keeps (interpolation splines) is kept in internal values.",
            "stored-result analysis with units-managed reads of a held axis"),
    "C07": ("Fourth hunt: the time-dependent and time-independent tensors a system builds for one request get the same options; every "
            "selectable propagation routine returns an evolution or refuses (four open findings).",
            "sibling-constructor option rule; all-paths return rule"),
    "C11": ("Round 8 and fourth hunt: the matrix of correlation functions keeps whole functions; the spectrum of a molecule sums over "
            "all its transitions from the ground state.", "whole-row store rule; level-index rule on the monomer calculation"),
    "C12": ("Third and fourth hunt, round 8: the pathway generators diagonalize what is not diagonalized yet; pathways are generated "
            "from the system and set-up of the call; the averaging vector follows the polarisations.",
            "dead-call rule; stored-result analysis of the calculator; derived-on-read / re-deriving-writers rule"),
    "C13": ("Round 8: a method that moves an axis moves points and description alike.", "symbolic interpretation of the axis record (start = S, data = S + k*step)"),
    "C14": ("Round 8 and fourth hunt: the index handed to the bath getter and what the getter does with it add up to the molecule's "
            "number; bath functions at different temperatures are refused, not taken for 'no temperature'.",
            "offset algebra over caller and callee; swallowed-refusal rule on has_temperature"),
    "C15": ("Third hunt and round 8: kernels of the propagators do not write into their operands; no accumulator persists across propagations.",
            "effect analysis of the kernels; persistent-accumulator rule"),
    "C16": ("Round 8: what is recorded while the baths are counted is recorded where the counter advances.", "counter-lockstep analysis"),
    "C17": ("Round 8: a moved time axis is still one axis (rule of C13-G).", "symbolic interpretation of the axis record"),
    "C18": ("Round 8 and fourth hunt: a recorded rank is restored exactly; the step of an imported axis is computed from internal values.",
            "path-condition rule on squeeze; units context of the step assignment"),
    "C19": ("Round 8 and fourth hunt: what is added or set is stored whole; a refused first addition restores also the absence of the "
            "storage; a container of views carries the type it was asked for.",
            "faithful-store tracing; roll-back rule with absent attributes; parameter-forwarding to the container"),
    "C20": ("Round 8: every collected item is received into an array of its own.", "per-iteration freshness of receive buffers"),
}


def main():
    man = build()
    with open(os.path.join(VERIF, "MANIFEST.json"), "w") as fh:
        json.dump(man, fh, indent=1)
    print("MANIFEST.json: %d checks, %d not_applicable" % (len(man["checks"]), len(man["not_applicable"])))


if __name__ == "__main__":
    main()
