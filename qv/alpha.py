"""Alpha-renaming twins.

Renames the local variables of every function of a source file consistently (a
behaviour-preserving edit) by rewriting the identifier tokens at the positions the
syntax tree gives.  Used by the self-test to find rules that depend on the spelling of a
local variable: a property check must stay silent on such a twin.

Only names that are certainly plain locals are renamed: assigned in the function, not a
parameter, not declared global/nonlocal, not used in a nested function, lambda,
comprehension-free closure or class body, and not appearing inside string constants that
are evaluated (none in the package).
"""
import ast
import io
import tokenize


def _local_names(fn):
    params = {a.arg for a in fn.args.args + fn.args.kwonlyargs + fn.args.posonlyargs}
    if fn.args.vararg:
        params.add(fn.args.vararg.arg)
    if fn.args.kwarg:
        params.add(fn.args.kwarg.arg)
    stored, banned = set(), set(params)
    nested_used = set()

    def walk(node, nested):
        for ch in ast.iter_child_nodes(node):
            if isinstance(ch, (ast.FunctionDef, ast.AsyncFunctionDef, ast.Lambda, ast.ClassDef)):
                for n in ast.walk(ch):
                    if isinstance(n, ast.Name):
                        nested_used.add(n.id)
                    elif isinstance(n, ast.arg):
                        nested_used.add(n.arg)
                continue
            if isinstance(ch, (ast.Global, ast.Nonlocal)):
                banned.update(ch.names)
            if isinstance(ch, ast.Name) and isinstance(ch.ctx, (ast.Store, ast.Del)):
                stored.add(ch.id)
            if isinstance(ch, (ast.Import, ast.ImportFrom)):
                for al in ch.names:
                    banned.add((al.asname or al.name).split(".")[0])
            if isinstance(ch, ast.ExceptHandler) and ch.name:
                banned.add(ch.name)
            if isinstance(ch, (ast.ListComp, ast.SetComp, ast.DictComp, ast.GeneratorExp)):
                # comprehension variables have their own scope; leave the names they bind alone
                for g in ch.generators:
                    for n in ast.walk(g.target):
                        if isinstance(n, ast.Name):
                            banned.add(n.id)
            walk(ch, nested)
    walk(fn, False)
    return {n for n in stored if n not in banned and n not in nested_used and not n.startswith("__")}


def rename_source(src, suffix="_q", only_functions=None):
    """Returns (new source, number of functions touched, number of identifiers renamed)."""
    tree = ast.parse(src)
    edits = {}     # (line, col) -> (old, new)
    nfun = 0
    for fn in ast.walk(tree):
        if not isinstance(fn, (ast.FunctionDef, ast.AsyncFunctionDef)):
            continue
        if only_functions is not None and fn.name not in only_functions:
            continue
        # do not descend: nested functions are handled as functions of their own, but their
        # free variables were excluded above
        names = _local_names(fn)
        if not names:
            continue
        # all names in the whole file that would collide
        taken = {n.id for n in ast.walk(fn) if isinstance(n, ast.Name)}
        ren = {n: n + suffix for n in names if (n + suffix) not in taken}
        if not ren:
            continue
        nfun += 1

        def visit(node):
            for ch in ast.iter_child_nodes(node):
                if isinstance(ch, (ast.FunctionDef, ast.AsyncFunctionDef, ast.Lambda, ast.ClassDef)):
                    continue
                if isinstance(ch, ast.Name) and ch.id in ren:
                    edits[(ch.lineno, ch.col_offset)] = (ch.id, ren[ch.id])
                visit(ch)
        visit(fn)
    if not edits:
        return src, 0, 0
    # positions from ast are in utf-8 byte offsets; map through the tokenizer, which gives
    # character columns, by matching NAME tokens
    out = []
    lines = src.splitlines(keepends=True)
    byline = {}
    for (ln, col), v in edits.items():
        byline.setdefault(ln, {})[col] = v
    toks = list(tokenize.generate_tokens(io.StringIO(src).readline))
    repl = {}    # (line, char col) -> (old, new)
    for t in toks:
        if t.type == tokenize.NAME and t.start[0] in byline:
            ln, ccol = t.start
            bcol = len(lines[ln - 1][:ccol].encode("utf-8"))
            if bcol in byline[ln] and byline[ln][bcol][0] == t.string:
                repl[(ln, ccol)] = byline[ln][bcol]
    count = 0
    for i, line in enumerate(lines, 1):
        cols = sorted((c for (ln, c) in repl if ln == i), reverse=True)
        for c in cols:
            old, new = repl[(i, c)]
            line = line[:c] + new + line[c + len(old):]
            count += 1
        out.append(line)
    new_src = "".join(out)
    ast.parse(new_src)
    return new_src, nfun, count
