"""Degree analysis: is the result of a function a linear (homogeneous, degree one) function of one of its arguments?

Abstract values, ordered Z < {C, L} < N:
  Z  zero (numpy.zeros): neutral for +, absorbing for *
  C  does not depend on the state (attributes of self, constants, loop counters, shapes)
  L  linear and homogeneous in the state
  N  anything else that depends on the state: affine (C + L), quadratic (L * L), a quotient by a state-dependent
     number (L / sum(L)), a power, an unknown call fed with the state
Statements are interpreted in order; loops are iterated to a fixed point with a join at the head; both branches of an if
are joined.  Calls of methods of the same class are followed (depth 3) with the degrees of the arguments.

A propagator p(t_k) = exp(K t_k) p0 is linear in p0.  A renormalisation (p / sum(p)), a clipping, an added constant make
the map non-linear: correct for inputs of one particular norm only.
"""
import ast

from .loader import norm

Z, C, L, N = "Z", "C", "L", "N"


def join(a, b):
    if a == b:
        return a
    if a == Z:
        return b
    if b == Z:
        return a
    return N           # C with L (an array with constant and state-dependent entries), or anything with N


def add(a, b):
    if a == Z:
        return b
    if b == Z:
        return a
    if a == b and a in (C, L):
        return a
    return N


def mul(a, b):
    if Z in (a, b):
        return Z
    if a == C:
        return b
    if b == C:
        return a
    return N           # L*L, anything with N


def div(a, b):
    if a == Z:
        return Z
    if b == C:
        return a
    return N


_SAME = ("sum", "real", "imag", "conj", "conjugate", "transpose", "copy", "reshape", "array", "asarray", "diag", "trace",
         "flatten", "ravel", "squeeze", "astype", "cumsum", "mean", "ascontiguousarray", "flip", "roll")
_BILIN = ("dot", "matmul", "tensordot", "outer", "inner", "kron", "multiply", "vdot", "einsum")
_CONST_ATTR = ("shape", "size", "ndim", "dtype", "length", "step", "start")
_SAME_ATTR = ("data", "_data", "T", "real", "imag")


class Degrees:
    def __init__(self, prog=None, cls=None, depth=3, func=None, linear_methods=()):
        self.prog, self.cls, self.depth, self.func = prog, cls, depth, func
        self.linear_methods = tuple(linear_methods)   # methods of held objects known to act linearly on their one state argument
        self.trace = []          # (node, degree) of expressions that turned N from non-N operands

    # ---- expressions
    def ev(self, e, env):
        d = self._ev(e, env)
        return d

    def _mark(self, e, d, operands):
        if d == N and N not in operands:
            self.trace.append(e)
        return d

    def _ev(self, e, env):
        if isinstance(e, ast.Constant):
            return C
        if isinstance(e, ast.Name):
            return env.get(e.id, C)
        if isinstance(e, ast.Attribute):
            if norm(e).startswith("self."):
                return env.get(norm(e), C)
            b = self._ev(e.value, env)
            if e.attr in _CONST_ATTR:
                return C
            return b
        if isinstance(e, ast.Subscript):
            return self._ev(e.value, env)
        if isinstance(e, ast.UnaryOp):
            return self._ev(e.operand, env)
        if isinstance(e, (ast.Tuple, ast.List)):
            d = Z
            for x in e.elts:
                d = join(d, self._ev(x, env))
            return d
        if isinstance(e, ast.BinOp):
            a, b = self._ev(e.left, env), self._ev(e.right, env)
            if isinstance(e.op, (ast.Add, ast.Sub)):
                return self._mark(e, add(a, b), (a, b))
            if isinstance(e.op, (ast.Mult, ast.MatMult)):
                return self._mark(e, mul(a, b), (a, b))
            if isinstance(e.op, (ast.Div, ast.FloorDiv)):
                return self._mark(e, div(a, b), (a, b))
            if isinstance(e.op, ast.Pow):
                if a in (Z, C) and b in (Z, C):
                    return C
                return self._mark(e, N, (a, b))
            return self._mark(e, C if a in (Z, C) and b in (Z, C) else N, (a, b))
        if isinstance(e, ast.IfExp):
            return join(self._ev(e.body, env), self._ev(e.orelse, env))
        if isinstance(e, ast.Compare) or isinstance(e, ast.BoolOp):
            return C
        if isinstance(e, ast.Call):
            fn = e.func.attr if isinstance(e.func, ast.Attribute) else (e.func.id if isinstance(e.func, ast.Name) else "")
            args = [self._ev(a, env) for a in e.args] + [self._ev(k.value, env) for k in e.keywords]
            recv = None
            if isinstance(e.func, ast.Attribute) and not norm(e.func.value).split(".")[0] in ("numpy", "np", "scipy"):
                recv = self._ev(e.func.value, env)
            if fn in ("zeros", "zeros_like", "empty"):
                return Z
            if fn in ("ones", "eye", "identity", "arange", "range", "len", "int", "float", "isinstance", "enumerate"):
                return C
            if fn in _SAME:
                d = recv if recv is not None and not e.args else (args[0] if args else (recv or C))
                if recv is not None and recv != C:
                    d = recv
                return d
            if fn in _BILIN:
                ops = [self._ev(a, env) for a in e.args if not (isinstance(a, ast.Constant) and isinstance(a.value, str))]
                if recv is not None:
                    ops.append(recv)
                d = C
                for o in ops:
                    d = mul(d, o)
                return self._mark(e, d, ops)
            # method of the same class
            if isinstance(e.func, ast.Attribute) and norm(e.func.value) == "self" and self.cls is not None and self.depth > 0 \
                    and (fn in self.cls.methods or ("_%s%s" % (self.cls.name, fn)) in self.cls.methods
                         or (fn.startswith("__") and fn in self.cls.methods)):
                callee = self.cls.methods.get(fn) or self.cls.methods.get("_%s%s" % (self.cls.name, fn))
                sub = Degrees(self.prog, self.cls, self.depth - 1, func=callee, linear_methods=self.linear_methods)
                pn = [a.arg for a in callee.node.args.args][1:]
                cenv = {p_: C for p_ in pn}
                for p_, a in zip(pn, e.args):
                    cenv[p_] = self._ev(a, env)
                for k in e.keywords:
                    if k.arg in cenv:
                        cenv[k.arg] = self._ev(k.value, env)
                r = sub.run(callee.node, cenv)
                self.trace.extend(sub.trace)
                return r
            # a class of the package called with the state: the object wraps what it is given (an evolution created from
            # the initial state, a state object created from data)
            if self.prog is not None and self.func is not None and isinstance(e.func, ast.Name):
                try:
                    tgt = self.prog.resolve_name(self.func.module, e.func.id, self.func)
                except Exception:
                    tgt = None
                from .loader import ClassInfo, FuncInfo
                if isinstance(tgt, ClassInfo):
                    d = Z
                    for a in args:
                        d = join(d, a) if a != C else d
                    return d if d != Z else C
                if isinstance(tgt, FuncInfo) and self.depth > 0 and hasattr(tgt.node, "args"):
                    sub = Degrees(self.prog, self.cls, self.depth - 1, func=tgt, linear_methods=self.linear_methods)
                    pn = [a.arg for a in tgt.node.args.args]
                    cenv = {p_: C for p_ in pn}
                    for p_, a in zip(pn, e.args):
                        cenv[p_] = self._ev(a, env)
                    for k in e.keywords:
                        if k.arg in cenv:
                            cenv[k.arg] = self._ev(k.value, env)
                    r = sub.run(tgt.node, cenv)
                    self.trace.extend(sub.trace)
                    return r
            allops = args + ([recv] if recv is not None else [])
            if all(a in (Z, C) for a in allops):
                return C
            if fn in self.linear_methods and recv in (C, None) and sum(1 for a in args if a == L) == 1 and N not in args:
                return L
            return self._mark(e, N, allops)
        return C

    # ---- statements
    def assign(self, t_, d, env):
        if isinstance(t_, ast.Name):
            env[t_.id] = d
        elif isinstance(t_, ast.Attribute) and norm(t_).startswith("self."):
            env[norm(t_)] = d
        elif isinstance(t_, ast.Subscript):
            b_ = t_
            while isinstance(b_, ast.Subscript):
                b_ = b_.value
            key = b_.id if isinstance(b_, ast.Name) else norm(b_)
            env[key] = join(env.get(key, C if not isinstance(b_, ast.Name) else C), d) if key in env else d
            # an element stored into an attribute of a local object (pr.data[k, :] = psi) is stored into that object
            r_ = b_
            while isinstance(r_, (ast.Attribute, ast.Subscript)):
                r_ = r_.value
            if isinstance(r_, ast.Name) and r_ is not b_ and r_.id != "self" and isinstance(b_, ast.Attribute) \
                    and b_.attr in ("data", "_data"):
                env[r_.id] = join(env.get(r_.id, Z), d)
        elif isinstance(t_, ast.Attribute) and t_.attr in ("data", "_data"):
            # (flags and other records of a local object - pr.is_in_rwa = True - are not its values)
            r_ = t_.value
            while isinstance(r_, (ast.Attribute, ast.Subscript)):
                r_ = r_.value
            if isinstance(r_, ast.Name) and r_.id != "self":
                env[r_.id] = join(env.get(r_.id, Z), d)
        elif isinstance(t_, (ast.Tuple, ast.List)):
            for x in t_.elts:
                self.assign(x, d, env)

    def block(self, stmts, env, rets):
        for st in stmts:
            if isinstance(st, ast.Assign):
                d = self.ev(st.value, env)
                for t_ in st.targets:
                    self.assign(t_, d, env)
            elif isinstance(st, ast.AugAssign):
                cur = self.ev(st.target, env)
                v = self.ev(st.value, env)
                if isinstance(st.op, (ast.Add, ast.Sub)):
                    d = add(cur, v)
                elif isinstance(st.op, (ast.Mult, ast.MatMult)):
                    d = mul(cur, v)
                elif isinstance(st.op, (ast.Div, ast.FloorDiv)):
                    d = div(cur, v)
                else:
                    d = N if L in (cur, v) or N in (cur, v) else C
                if d == N and N not in (cur, v):
                    self.trace.append(st)
                b_ = st.target
                while isinstance(b_, ast.Subscript):
                    b_ = b_.value
                if isinstance(b_, ast.Name):
                    env[b_.id] = d if b_ is st.target else join(env.get(b_.id, Z), d)
                else:
                    env[norm(b_)] = d
            elif isinstance(st, ast.Return):
                rets.append(self.ev(st.value, env) if st.value is not None else C)
            elif isinstance(st, ast.If):
                e1, e2 = dict(env), dict(env)
                self.block(st.body, e1, rets)
                self.block(st.orelse, e2, rets)
                for k in set(e1) | set(e2):
                    env[k] = join(e1.get(k, env.get(k, C)), e2.get(k, env.get(k, C))) if (k in e1 and k in e2) else \
                        e1.get(k, e2.get(k))
            elif isinstance(st, (ast.For, ast.While)):
                if isinstance(st, ast.For):
                    self.assign(st.target, C if self.ev(st.iter, env) in (Z, C) else self.ev(st.iter, env), env)
                for _ in range(6):
                    before = dict(env)
                    self.block(st.body, env, rets)
                    for k in set(before) | set(env):
                        if k in before and k in env:
                            env[k] = join(before[k], env[k]) if before[k] != env[k] else env[k]
                    if env == before:
                        break
                self.block(st.orelse, env, rets)
            elif isinstance(st, ast.With):
                self.block(st.body, env, rets)
            elif isinstance(st, ast.Try):
                self.block(st.body, env, rets)
                for h in st.handlers:
                    self.block(h.body, env, rets)
                self.block(st.orelse, env, rets)
                self.block(st.finalbody, env, rets)
            elif isinstance(st, ast.Expr):
                self.ev(st.value, env)

    def run(self, fnode, env):
        env = dict(env)
        rets = []
        self.block(fnode.body, env, rets)
        d = Z
        for r in rets:
            d = join(d, r)
        return d if rets else C
