"""Constructor typestate: an attribute read under a flag must have been assigned on every
constructor path that sets the flag.

Classes of the package describe what an object was given with boolean attributes
(`has_RTensor`, `has_PDeph`, `has_relaxation`, ...) set in `__init__`, and the methods branch on
them.  For an attribute that only the constructor assigns, the analysis enumerates the paths
through `__init__` (exits by `raise` excluded) with, per path, the set of attributes definitely
assigned and the constant value of every flag, and the reads of the attribute reachable from an
entry method together with the flag literals that guard them (enclosing `if`s, and the guards of
the call sites on the way from the entry).  A constructor path whose flags are consistent with
the guards of a read but which does not assign the attribute is an object on which the entry
raises AttributeError.
"""
import ast

from .loader import norm, walk_no_nested, demangle


class State:
    __slots__ = ("assigned", "flags", "trail")

    def __init__(self, assigned=(), flags=None, trail=()):
        self.assigned = frozenset(assigned)
        self.flags = dict(flags or {})
        self.trail = tuple(trail)

    def key(self):
        return (self.assigned, tuple(sorted(self.flags.items())))


def _self_attr(t):
    return t.attr if isinstance(t, ast.Attribute) and isinstance(t.value, ast.Name) and t.value.id == "self" else None


def _const_bool(v):
    if isinstance(v, ast.Constant) and isinstance(v.value, bool):
        return v.value
    return None


def constructor_states(init_node, limit=4096):
    """abstract states at the normal exits of __init__"""
    def run(stmts, states):
        for st in stmts:
            if not states:
                return []
            states = step(st, states)
            # merge identical states
            uniq = {}
            for s in states:
                uniq.setdefault(s.key(), s)
            states = list(uniq.values())
            if len(states) > limit:
                raise OverflowError("too many constructor paths")
        return states

    def assign(s, targets, value):
        a, f = set(s.assigned), dict(s.flags)
        for t in targets:
            for x in (t.elts if isinstance(t, (ast.Tuple, ast.List)) else [t]):
                nm = _self_attr(x)
                if nm is not None:
                    a.add(nm)
                    f[nm] = _const_bool(value) if not isinstance(t, (ast.Tuple, ast.List)) else None
        return State(a, f, s.trail)

    def step(st, states):
        if isinstance(st, ast.Assign):
            return [assign(s, st.targets, st.value) for s in states]
        if isinstance(st, (ast.AugAssign, ast.AnnAssign)):
            return [assign(s, [st.target], None) for s in states] if getattr(st, "value", None) is not None else states
        if isinstance(st, ast.Raise):
            return []
        if isinstance(st, ast.Return):
            done.extend(states)
            return []
        if isinstance(st, ast.If):
            cond = norm(st.test)[:60]
            t_in, f_in = [], []
            lits_t = literals(st.test, True)
            lits_f = literals(st.test, False)
            for s in states:
                # a branch taken refines what is known about the flags it tests (only attributes already
                # assigned on this path: the test reads them)
                if consistent(s.flags, lits_t):
                    fl = dict(s.flags)
                    fl.update({k: v for k, v in lits_t.items() if k in s.assigned})
                    t_in.append(State(s.assigned, fl, s.trail + ("if " + cond,)))
                if consistent(s.flags, lits_f):
                    fl = dict(s.flags)
                    fl.update({k: v for k, v in lits_f.items() if k in s.assigned})
                    f_in.append(State(s.assigned, fl, s.trail + ("not (" + cond + ")",)))
            return run(st.body, t_in) + run(st.orelse, f_in)
        if isinstance(st, (ast.For, ast.While)):
            # zero or one iteration
            return states + run(st.body, list(states))
        if isinstance(st, ast.With):
            return run(st.body, states)
        if isinstance(st, ast.Try):
            out = run(st.body, list(states))
            for h in st.handlers:
                out += run(h.body, list(states))
            out = run(st.orelse, out) if st.orelse else out
            return run(st.finalbody, out) if st.finalbody else out
        return states

    done = []
    end = run(list(init_node.body), [State()])
    return done + end


def literals(test, truth):
    """flag literals {flag: bool} implied by `test` being `truth` (only what is certain)"""
    if isinstance(test, ast.UnaryOp) and isinstance(test.op, ast.Not):
        return literals(test.operand, not truth)
    nm = _self_attr(test)
    if nm is not None:
        return {nm: truth}
    if isinstance(test, ast.BoolOp):
        out = {}
        if (isinstance(test.op, ast.And) and truth) or (isinstance(test.op, ast.Or) and not truth):
            for v in test.values:
                for k, b in literals(v, truth).items():
                    if k in out and out[k] != b:
                        return {"__false__": True}
                    out[k] = b
        return out
    if isinstance(test, ast.Compare) and len(test.ops) == 1 and isinstance(test.ops[0], (ast.Is, ast.Eq)):
        nm = _self_attr(test.left)
        b = _const_bool(test.comparators[0])
        if nm is not None and b is not None:
            return {nm: b if truth else (not b)}
    return {}


def consistent(flags, lits):
    if "__false__" in lits:
        return False
    return all(flags.get(k) is None or flags.get(k) == v for k, v in lits.items())


def merge(a, b):
    out = dict(a)
    for k, v in b.items():
        if k in out and out[k] != v:
            return None
        out[k] = v
    return out


def _guards_of(node, pm):
    """flag literals of the enclosing ifs of node inside its function"""
    g = {}
    child, p = node, pm.get(node)
    while p is not None:
        if isinstance(p, ast.If) and child is not p.test:
            inbody = any(child is s for s in p.body)
            inelse = any(child is s for s in p.orelse)
            if inbody or inelse:
                g2 = merge(g, literals(p.test, inbody))
                if g2 is None:
                    return None
                g = g2
        elif isinstance(p, ast.IfExp):
            if child is p.body or child is p.orelse:
                g2 = merge(g, literals(p.test, child is p.body))
                if g2 is None:
                    return None
                g = g2
        elif isinstance(p, ast.BoolOp) and isinstance(p.op, ast.And):
            # a and b: b is evaluated only if a is true
            idx = [i for i, v in enumerate(p.values) if v is child]
            if idx:
                for v in p.values[:idx[0]]:
                    g2 = merge(g, literals(v, True))
                    if g2 is None:
                        return None
                    g = g2
        child, p = p, pm.get(p)
    return g


def reachable_contexts(prog, cls, entry, depth=5, cap=256):
    """{method name: [guard dict, ...]} for the methods reachable from `entry` through self-calls"""
    from .loader import parents_map
    methods = {}
    for b in reversed([x for x in prog.mro(cls) if x is not None]):
        for nme, fn in b.methods.items():
            methods[nme] = fn
    ctx = {entry: [{}]}
    work = [(entry, {}, 0)]
    pms = {}
    seen = set()
    while work:
        name, g, d = work.pop()
        fn = methods.get(name)
        if fn is None or d > depth:
            continue
        if id(fn) not in pms:
            pms[id(fn)] = parents_map(fn.node)
        pm = pms[id(fn)]
        for c in walk_no_nested(fn.node):
            if isinstance(c, ast.Call) and isinstance(c.func, ast.Attribute) and isinstance(c.func.value, ast.Name) \
                    and c.func.value.id == "self":
                tgt = demangle(fn, c.func.attr)
                if tgt not in methods or tgt == name:
                    continue
                lg = _guards_of(c, pm)
                if lg is None:
                    continue
                g2 = merge(g, lg)
                if g2 is None:
                    continue
                k = (tgt, tuple(sorted(g2.items())))
                if k in seen:
                    continue
                seen.add(k)
                lst = ctx.setdefault(tgt, [])
                if len(lst) < cap:
                    lst.append(g2)
                    work.append((tgt, g2, d + 1))
    return methods, ctx, pms


def constructor_only_attributes(prog, cls):
    """attributes of self assigned in __init__ (of the class or its bases) and by no other method, and not
    defined at class level"""
    init_assigned, elsewhere, classlevel = set(), set(), set()
    for b in [x for x in prog.mro(cls) if x is not None]:
        classlevel |= set(b.attrs) | set(b.methods)
        for nme, fn in b.methods.items():
            for n in ast.walk(fn.node):
                tg = []
                if isinstance(n, ast.Assign):
                    tg = n.targets
                elif isinstance(n, (ast.AugAssign, ast.AnnAssign)):
                    tg = [n.target]
                elif isinstance(n, ast.Call) and isinstance(n.func, ast.Name) and n.func.id == "setattr":
                    elsewhere.add("*")
                for t in tg:
                    for x in (t.elts if isinstance(t, (ast.Tuple, ast.List)) else [t]):
                        a = _self_attr(x)
                        if a is not None:
                            (init_assigned if nme == "__init__" else elsewhere).add(a)
    if "*" in elsewhere:
        return set()
    return {a for a in init_assigned if a not in elsewhere and a not in classlevel}


def check(run, rid, prog, cls, entry, what):
    """obligations: one per (method, attribute) read reachable from `entry`"""
    from .loader import AnalysisError, parents_map
    init = prog.find_method(cls, "__init__")
    if init is None:
        raise AnalysisError("%s has no constructor" % cls.name)
    states = constructor_states(init.node)
    if not states:
        raise AnalysisError("%s.__init__: no normal exit found" % cls.name)
    only = constructor_only_attributes(prog, cls)
    methods, ctx, pms = reachable_contexts(prog, cls, entry)
    n = 0
    for name, guards in sorted(ctx.items()):
        fn = methods[name]
        prog.consulted.add(fn.relpath)
        pm = pms.get(id(fn)) or parents_map(fn.node)
        reads = {}
        for x in walk_no_nested(fn.node):
            a = _self_attr(x)
            if a is not None and isinstance(x.ctx, ast.Load) and a in only:
                reads.setdefault(a, []).append(x)
        for a, nodes in sorted(reads.items()):
            n += 1
            bad = None
            for x in nodes:
                lg = _guards_of(x, pm)
                if lg is None:
                    continue
                for g in guards:
                    tot = merge(g, lg)
                    if tot is None:
                        continue
                    for s in states:
                        if a not in s.assigned and consistent(s.flags, tot):
                            bad = (x, tot, s)
                            break
                    if bad:
                        break
                if bad:
                    break
            msg = ""
            if bad:
                x, tot, s = bad
                msg = ("%s reads self.%s under %s; the constructor path [%s] leaves the object with these flags "
                       "without assigning self.%s: %s raises AttributeError"
                       % (fn.short, a, {k: v for k, v in sorted(tot.items())} or "no flag",
                          "; ".join(s.trail[-4:]), a, what))
            run.obligation(rid, fn.short, bad is None, key="assigned-under-flags:" + a, message=msg,
                           loc=fn.loc(bad[0]) if bad else fn.loc(nodes[0]),
                           sample={"method": fn.short, "attribute": a, "constructor_paths": len(states),
                                   "contexts": len(guards)})
    return n
