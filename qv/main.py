"""Driver: ./check Cxx --tier quick|thorough ; ./check --replay <path> ;
./check --selftest [Cxx]"""
import importlib
import json
import os
import sys
import traceback

from . import REPO
from .loader import Program, AnalysisError
from .report import Run


def run_property(pid, tier, only=None, repo=None, quiet=False):
    seed = int(os.environ.get("VERIF_SEED", "0") or 0)
    run = Run(pid, tier, seed)
    run.only = only
    try:
        mod = importlib.import_module("qv.rules.%s" % pid.lower())
    except ImportError as e:
        print("ANALYSIS-ERROR property=%s no rule module: %s" % (pid, e))
        return 2
    prog = None
    try:
        prog = Program(repo or REPO)
        mod.check(run, prog, tier)
        return run.finish(prog)
    except AnalysisError as e:
        # findings of the rules that completed stand; without any, this is an analysis error
        try:
            return run.finish(prog, interrupted=str(e))
        except Exception:
            print("ANALYSIS-ERROR property=%s %s" % (pid, e))
            return 2
    except Exception as e:
        traceback.print_exc()
        try:
            return run.finish(prog, interrupted="internal error: %s: %s" % (type(e).__name__, e))
        except Exception:
            print("ANALYSIS-ERROR property=%s internal error" % pid)
            return 2


def main(argv):
    tier = os.environ.get("VERIF_TIER", "quick")
    args = list(argv)
    if "--tier" in args:
        i = args.index("--tier")
        tier = args[i + 1]
        del args[i:i + 2]
    if tier not in ("quick", "thorough"):
        print("ANALYSIS-ERROR unknown tier %s" % tier)
        return 2
    if args and args[0] == "--replay":
        with open(args[1]) as fh:
            f = json.load(fh)
        only = (f["property"], f["rule"], f["construct"], f["key"])
        return run_property(f["property"], tier, only=only)
    if args and args[0] == "--selftest":
        from . import selftest
        return selftest.main(args[1:])
    if not args:
        print("usage: ./check Cxx [--tier quick|thorough]")
        return 2
    pid = args[0]
    rc = run_property(pid, tier)
    if rc == 0 and tier == "thorough":
        from . import selftest, sweeps
        from .report import EVID
        # package-wide sweeps: observations only (never a violation)
        try:
            obs = sweeps.run_for(pid, Program(REPO))
        except Exception as e:
            print("ANALYSIS-ERROR property=%s sweep failed: %s" % (pid, e))
            return 2
        if obs:
            path = os.path.join(EVID, "%s.json" % pid)
            with open(path) as fh:
                ev = json.load(fh)
            ev["coverage"]["observations"] = obs
            with open(path, "w") as fh:
                json.dump(ev, fh, indent=1, default=str)
            for k, v in obs.items():
                cnt = v.get("missing_count", v.get("count"))
                if cnt is None:
                    lists = [x for x in v.values() if isinstance(x, list)]
                    cnt = len(lists[0]) if lists else 0
                print("sweep %s: %s" % (k, cnt))
        rc2 = selftest.run_for(pid, attach_evidence=True)
        if rc2 != 0:
            return rc2
        rc2 = selftest.run_for(pid, attach_evidence=True, verbose=False, alpha=True)
        if rc2 != 0:
            return rc2
    return rc


if __name__ == "__main__":
    sys.exit(main(sys.argv[1:]))
