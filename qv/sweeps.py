"""Package-wide sweeps run in the thorough tier.  Their results are
*observations* (out-of-scope sites sharing an idiom with a claimed rule); they
never produce a VIOLATION and are written to the evidence file only."""
import ast

from .loader import norm, walk_no_nested, call_name
from . import apiexist


def api_sweep(prog):
    out = []
    seen = 0
    for f in prog.all_functions():
        for ext, node in apiexist.external_chains(prog, f):
            seen += 1
            if not apiexist.exists(ext):
                out.append({"function": f.qualname, "api": ext, "loc": f.loc(node)})
    return {"external_references": seen, "missing": out[:200], "missing_count": len(out)}


def leaked_loop_sweep(prog):
    from .rules.c09 import leaked_uses
    out = []
    n = 0
    for f in prog.all_functions():
        n += 1
        try:
            lk = leaked_uses(f)
        except Exception:
            continue
        for name, node, l1 in lk:
            out.append({"function": f.qualname, "name": name, "loc": f.loc(node)})
    return {"functions": n, "uses_of_leaked_loop_variables": out[:200], "count": len(out)}


def hfft_sweep(prog):
    out = []
    for f in prog.all_functions():
        for c in [n for n in walk_no_nested(f.node) if isinstance(n, ast.Call) and call_name(n) == "hfft"]:
            has_n = any(k.arg == "n" for k in c.keywords) or len(c.args) > 1
            flips = [n for n in walk_no_nested(f.node) if isinstance(n, ast.Call) and call_name(n) in ("flipud", "flip")]
            rolls = [n for n in walk_no_nested(f.node) if isinstance(n, ast.Call) and call_name(n) == "roll"]
            out.append({"function": f.qualname, "loc": f.loc(c), "hfft_has_length": has_n,
                        "reversal": bool(flips), "roll_compensation": bool(rolls)})
    return {"hfft_sites": out}


def unit_switch_sweep(prog):
    out = []
    for m in prog.modules.values():
        for n in ast.walk(m.tree):
            if isinstance(n, ast.Call) and call_name(n) in ("set_current_units", "unset_current_units"):
                out.append({"module": m.name, "line": n.lineno, "call": norm(n)[:80]})
    return {"raw_unit_switch_calls_anywhere": out}


class _Collect:
    """stand-in for a Run that only collects failed obligations (observations)"""

    def __init__(self):
        self.items = []
        self.n = 0

    def obligation(self, rid, construct, ok, key="", message="", loc="", detail=None, sample=None):
        self.n += 1
        if not ok:
            self.items.append({"construct": construct, "loc": loc, "what": message[:220]})


def attribute_sweep(prog):
    col = _Collect()
    funcs = [f for f in prog.all_functions() if f.cls is not None]
    apiexist.check_self_attributes(col, "sweep", prog, funcs, "this path")
    return {"methods": col.n, "undefined_self_attributes": col.items[:200], "count": len(col.items)}


def arity_sweep(prog):
    col = _Collect()
    apiexist.check_call_arity(col, "sweep", prog, list(prog.all_functions()), "this path")
    return {"functions_with_resolved_calls": col.n, "calls_with_wrong_arguments": col.items[:200], "count": len(col.items)}


def managed_read_sweep(prog):
    from . import unitflow
    out = []
    n = 0
    for f in prog.all_functions():
        total, bad = unitflow.typed_unprotected_reads(prog, f)
        n += total
        for x in bad:
            out.append({"function": f.qualname, "read": norm(x), "loc": f.loc(x)})
    return {"typed_reads": n, "unprotected": out, "count": len(out)}


def isinstance_sweep(prog):
    col = _Collect()
    apiexist.check_isinstance_types(col, "sweep", prog, list(prog.all_functions()), "this path")
    return {"isinstance_tests": col.n, "members_that_are_not_classes": col.items[:200], "count": len(col.items)}


def used_after_loop_sweep(prog):
    from .rules.c09 import used_after_loop
    out = []
    n = 0
    for f in prog.all_functions():
        if f.name != "__init__":
            continue
        n += 1
        try:
            ua = used_after_loop(f)
        except Exception:
            continue
        for name, node, lp in ua:
            out.append({"function": f.qualname, "name": name, "loc": f.loc(node)})
    return {"constructors": n, "loop_values_used_after_the_loop": out[:200], "count": len(out)}


def write_only_attribute_sweep(prog):
    """attributes of self that are assigned but never read anywhere in the package, while an attribute with a
    similar name is read: a reset or an update that goes to a misspelt name has no effect"""
    import difflib
    read, written = {}, {}
    for f in prog.all_functions():
        for n in ast.walk(f.node):
            if isinstance(n, ast.Attribute):
                if isinstance(n.ctx, ast.Store):
                    if isinstance(n.value, ast.Name) and n.value.id == "self":
                        written.setdefault(n.attr, []).append(f.loc(n))
                else:
                    read.setdefault(n.attr, 0)
                    read[n.attr] += 1
            elif isinstance(n, ast.Constant) and isinstance(n.value, str) and n.value.isidentifier():
                read.setdefault(n.value, 0)      # getattr/hasattr/__dict__ by name
                read[n.value] += 1
    out = []
    for a, locs in sorted(written.items()):
        if a in read:
            continue
        near = difflib.get_close_matches(a, list(read), n=1, cutoff=0.85)
        if near:
            out.append({"attribute": a, "assigned_at": locs[:3], "similar_attribute_that_is_read": near[0]})
    return {"attributes_assigned": len(written), "write_only_with_a_near_namesake": out[:100], "count": len(out)}


def calculator_units_sweep(prog):
    """classes anywhere in the package that keep a Hamiltonian: converting reads and their protection"""
    from . import unitflow
    out = []
    n = 0
    for c in sorted(prog.all_classes(), key=lambda c: c.qualname):
        if ".tests." in c.qualname or ".wizard." in c.qualname or c.qualname.startswith("quantarhei.qm."):
            continue
        if not unitflow.hamiltonian_fields(prog, c)[1]:
            continue
        cr = unitflow.CalculatorReads(prog, c)
        for fn, node, d, p in cr.sites:
            n += 1
            if p is None:
                out.append({"class": c.qualname, "in": fn.short, "read": d, "loc": fn.loc(node)})
    return {"reads_outside_quantarhei_qm": n, "unprotected": out[:200], "count": len(out)}


SWEEPS = {
    "C09": [("leaked_loop_variables_package_wide", leaked_loop_sweep),
            ("constructor_loop_values_used_after_the_loop_package_wide", used_after_loop_sweep)],
    "C10": [("missing_apis_package_wide", api_sweep)],
    "C12": [("missing_apis_package_wide", api_sweep)],
    "C18": [("missing_apis_package_wide", api_sweep)],
    "C11": [("half_sided_transform_idiom_package_wide", hfft_sweep)],
    "C05": [("raw_unit_switch_calls_package_wide", unit_switch_sweep),
            ("typed_units_managed_reads_package_wide", managed_read_sweep)],
    "C08": [("isinstance_members_package_wide", isinstance_sweep)],
    "C13": [("write_only_attributes_package_wide", write_only_attribute_sweep)],
    "C02": [("converting_reads_of_classes_keeping_a_hamiltonian_outside_qm", calculator_units_sweep)],
    "C01": [("undefined_self_attributes_package_wide", attribute_sweep),
            ("calls_with_wrong_arguments_package_wide", arity_sweep)],
}


def run_for(pid, prog):
    res = {}
    for name, fn in SWEEPS.get(pid, []):
        res[name] = fn(prog)
    return res
