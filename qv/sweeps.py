"""Package-wide sweeps run in the thorough tier.  Their results are
*observations* (out-of-scope sites sharing an idiom with a claimed rule); they
never produce a VIOLATION and are written to the evidence file only."""
import ast

from .loader import norm, walk_no_nested, call_name
from . import apiexist


def api_sweep(prog):
    out = []
    seen = 0
    for f in prog.all_functions():
        for ext, node in apiexist.external_chains(prog, f):
            seen += 1
            if not apiexist.exists(ext):
                out.append({"function": f.qualname, "api": ext, "loc": f.loc(node)})
    return {"external_references": seen, "missing": out[:200], "missing_count": len(out)}


def leaked_loop_sweep(prog):
    from .rules.c09 import leaked_uses
    out = []
    n = 0
    for f in prog.all_functions():
        n += 1
        try:
            lk = leaked_uses(f)
        except Exception:
            continue
        for name, node, l1 in lk:
            out.append({"function": f.qualname, "name": name, "loc": f.loc(node)})
    return {"functions": n, "uses_of_leaked_loop_variables": out[:200], "count": len(out)}


def hfft_sweep(prog):
    out = []
    for f in prog.all_functions():
        for c in [n for n in walk_no_nested(f.node) if isinstance(n, ast.Call) and call_name(n) == "hfft"]:
            has_n = any(k.arg == "n" for k in c.keywords) or len(c.args) > 1
            flips = [n for n in walk_no_nested(f.node) if isinstance(n, ast.Call) and call_name(n) in ("flipud", "flip")]
            rolls = [n for n in walk_no_nested(f.node) if isinstance(n, ast.Call) and call_name(n) == "roll"]
            out.append({"function": f.qualname, "loc": f.loc(c), "hfft_has_length": has_n,
                        "reversal": bool(flips), "roll_compensation": bool(rolls)})
    return {"hfft_sites": out}


def unit_switch_sweep(prog):
    out = []
    for m in prog.modules.values():
        for n in ast.walk(m.tree):
            if isinstance(n, ast.Call) and call_name(n) in ("set_current_units", "unset_current_units"):
                out.append({"module": m.name, "line": n.lineno, "call": norm(n)[:80]})
    return {"raw_unit_switch_calls_anywhere": out}


SWEEPS = {
    "C09": [("leaked_loop_variables_package_wide", leaked_loop_sweep)],
    "C10": [("missing_apis_package_wide", api_sweep)],
    "C12": [("missing_apis_package_wide", api_sweep)],
    "C18": [("missing_apis_package_wide", api_sweep)],
    "C11": [("half_sided_transform_idiom_package_wide", hfft_sweep)],
    "C05": [("raw_unit_switch_calls_package_wide", unit_switch_sweep)],
}


def run_for(pid, prog):
    res = {}
    for name, fn in SWEEPS.get(pid, []):
        res[name] = fn(prog)
    return res
