"""Derived-state freshness.

A *deriver* is a method that computes attributes of self from other attributes of self
(``self.expo = f(self.PDeph, self.dt)``).  A method that consumes the derived attributes is
correct for every history only if the derivation is repeated after every change of an input:
either (A) a call of the deriver dominates every consumer call inside the consuming method, or
(B) every method that stores one of the inputs calls the deriver after the store.
"""
import ast

from .loader import norm, walk_no_nested, parents_map


def _self_attr(n):
    return isinstance(n, ast.Attribute) and isinstance(n.value, ast.Name) and n.value.id == "self"


def _is_call_of(n, mname):
    return isinstance(n, ast.Call) and _self_attr(n.func) and n.func.attr == mname


def _blocks(node):
    for fld in ("body", "orelse", "finalbody"):
        b = getattr(node, fld, None)
        if isinstance(b, list) and b and isinstance(b[0], ast.stmt):
            yield b


def dominated_by_call(fnode, target, mname):
    """True when a statement that unconditionally calls self.<mname>() precedes `target` in a block
    that encloses it (structured-program dominance; loops and branches only nest)."""
    pm = parents_map(fnode)
    # conditions under which the target runs (it lies in the body of these ifs), as long as the routine
    # itself does not assign what they test
    stored = {n.attr for n in ast.walk(fnode) if isinstance(n, ast.Attribute) and isinstance(n.ctx, ast.Store)}
    stored |= {n.id for n in ast.walk(fnode) if isinstance(n, ast.Name) and isinstance(n.ctx, ast.Store)}
    guards = set()
    child, p = target, pm.get(target)
    while p is not None and p is not fnode:
        if isinstance(p, ast.If) and any(child is s_ for s_ in p.body):
            names = {x.attr for x in ast.walk(p.test) if isinstance(x, ast.Attribute)} | \
                    {x.id for x in ast.walk(p.test) if isinstance(x, ast.Name) and x.id != "self"}
            if not (names & stored) and not any(isinstance(x, ast.Call) for x in ast.walk(p.test)):
                guards.add(norm(p.test))
        child, p = p, pm.get(p)
    node = target
    while node is not fnode and node is not None:
        parent = pm.get(node)
        if parent is None:
            break
        for blk in _blocks(parent):
            if node in blk:
                for st in blk[:blk.index(node)]:
                    if isinstance(st, ast.Expr) and _is_call_of(st.value, mname):
                        return True
                    # `if G: self.deriver()` before a use that itself runs only under the same G
                    if isinstance(st, ast.If) and norm(st.test) in guards and \
                            any(isinstance(b, ast.Expr) and _is_call_of(b.value, mname) for b in st.body):
                        return True
        node = parent
    return False


def analyse(prog, cls, deriver_name):
    d = cls.methods[deriver_name]
    derived = set()
    inputs = set()
    for n in walk_no_nested(d.node):
        if _self_attr(n):
            if isinstance(n.ctx, ast.Store):
                derived.add(n.attr)
            elif isinstance(n.ctx, ast.Load):
                inputs.add(n.attr)
    inputs -= derived
    inputs = {a for a in inputs if prog.find_method(cls, a) is None}
    # consumers: methods reading a derived attribute; users: methods calling a consumer
    consumers = {}
    for mname, f in cls.methods.items():
        if mname == deriver_name:
            continue
        rd = sorted({n.attr for n in walk_no_nested(f.node) if _self_attr(n) and isinstance(n.ctx, ast.Load)
                     and n.attr in derived})
        if rd:
            consumers[mname] = rd
    uses = []   # (method, node of the consuming construct, consumer name or attribute)
    for mname, f in cls.methods.items():
        if mname == deriver_name:
            continue
        for n in walk_no_nested(f.node):
            for c in consumers:
                if _is_call_of(n, c) and mname != c:
                    uses.append((f, n, c))
    called = {c for _, _, c in uses}
    for mname, rd in consumers.items():
        if mname not in called:
            f = cls.methods[mname]
            for n in walk_no_nested(f.node):
                if _self_attr(n) and isinstance(n.ctx, ast.Load) and n.attr in derived:
                    uses.append((f, n, "self." + n.attr))
                    break
    # writers of inputs
    writers = []
    for mname, f in cls.methods.items():
        for n in walk_no_nested(f.node):
            tgt = None
            if isinstance(n, ast.Assign):
                tgt = [t_ for t_ in n.targets if _self_attr(t_) and t_.attr in inputs]
            elif isinstance(n, ast.AugAssign) and _self_attr(n.target) and n.target.attr in inputs:
                tgt = [n.target]
            if tgt:
                after = False
                pm = parents_map(f.node)
                node = n
                while node is not f.node and node is not None and not after:
                    parent = pm.get(node)
                    if parent is None:
                        break
                    for blk in _blocks(parent):
                        if node in blk:
                            for st in blk[blk.index(node) + 1:]:
                                if isinstance(st, ast.Expr) and _is_call_of(st.value, deriver_name):
                                    after = True
                    node = parent
                writers.append((f, n, tgt[0].attr, after))
    return {"derived": sorted(derived), "inputs": sorted(inputs), "consumers": consumers,
            "uses": uses, "writers": writers}


def check(run, rid, prog, cls, deriver_name, what):
    r = analyse(prog, cls, deriver_name)
    all_rederive = bool(r["writers"]) and all(w[3] for w in r["writers"])
    for f, node, c in r["uses"]:
        dom = dominated_by_call(f.node, node, deriver_name)
        stale = sorted({"%s (self.%s)" % (w[0].short, w[2]) for w in r["writers"] if not w[3]})
        run.obligation(rid, f.short, dom or all_rederive, key="fresh:%s:%s" % (deriver_name, c),
                       message="%s: %s is used without %s() having been called in the same routine, and %s "
                               "change(s) its inputs %s without calling it: the derived values %s are those of an "
                               "earlier setting" % (what, c, deriver_name, stale, r["inputs"], r["derived"]),
                       loc=f.loc(node),
                       sample={"deriver": deriver_name, "derived": r["derived"], "inputs": r["inputs"],
                               "use": c, "dominated": dom, "writers_rederive": all_rederive})
    return r
