#!/bin/bash
# refresh everything that is derived: reference names, evidence of all 20 checks, DESIGN tables, MANIFEST; validate
cd /verif
/venv/bin/python -W ignore -B -m qv.refnames --build | tail -1
for i in 01 02 03 04 05 06 07 08 09 10 11 12 13 14 15 16 17 18 19 20; do
  ( ./check C$i > /tmp/fin_C$i.txt 2>&1; echo "C$i rc=$? $(grep -c '^KNOWN-FINDING' /tmp/fin_C$i.txt) known $(grep '^VIOLATION\|^ANALYSIS' /tmp/fin_C$i.txt | head -2 | cut -c1-120)" ) &
done
wait
/venv/bin/python -B tools/design_tables.py
/venv/bin/python -B -m qv.manifest
python3-vt - <<'PY'
import json, jsonschema, glob
m = json.load(open('/verif/MANIFEST.json'))
jsonschema.validate(m, json.load(open('/root/.vp/MANIFEST.schema.json')))
es = json.load(open('/root/.vp/EVIDENCE.schema.json'))
for f in sorted(glob.glob('/verif/evidence/C*.json')):
    jsonschema.validate(json.load(open(f)), es)
print("manifest and %d evidence files valid; claimed %d, not_applicable %d" % (len(glob.glob('/verif/evidence/C*.json')), len(m.get('properties', m.get('claims', []))), len(m.get('not_applicable', []))))
PY
