#!/usr/bin/env python3
"""Writes the prompts for one round of independently seeded changes.

    seed_prompts.py <round number> <output directory> <worktree prefix>

One prompt per property, built ONLY from the text of the property (statement, quantifier, file list)
and from what the earlier rounds touched (files, functions, what they need to manifest) - nothing
about the checks.  Each sub-agent gets its own scratch worktree <prefix>Cxx of /repo.
Not used by any check.
"""
import json
import os
import re
import sys

VERIF = os.path.dirname(os.path.dirname(os.path.abspath(__file__)))


def main():
    rnd = int(sys.argv[1])
    outdir = sys.argv[2]
    prefix = sys.argv[3]
    os.makedirs(outdir, exist_ok=True)
    prev = {}
    for r in range(1, rnd):
        pref = "seed" if r == 1 else "seed%d" % r
        for i in range(1, 21):
            pid = "C%02d" % i
            d = os.path.join(VERIF, "seeded", "%s-%s" % (pref, pid))
            if not os.path.isdir(d):
                continue
            m = json.load(open(os.path.join(d, "meta.json")))
            diff = open(os.path.join(d, "patch.diff")).read()
            funcs = re.findall(r"^@@.*@@ (?:\s*)(.*)$", diff, re.M)
            prev.setdefault(pid, []).append((m["files"], sorted(set(f.strip() for f in funcs))[:3], m["needs_to_manifest"]))
    for line in open(os.path.join(VERIF, "properties.jsonl")):
        p = json.loads(line)
        pid = p["id"]
        wt = "%s%s" % (prefix, pid)
        hist = "\n".join("   - attempt %d: changed %s (around: %s); manifests with: \"%s\""
                         % (k + 1, ", ".join(f), "; ".join(fn) or "n/a", nd) for k, (f, fn, nd) in enumerate(prev.get(pid, [])))
        text = f'''You are working in a scratch git worktree of the Python package "quantarhei" (a simulator for open quantum systems in molecular aggregates) located at {wt}. Work ONLY inside {wt}. Do not touch or read /repo or /verif. The Python interpreter with all dependencies is /venv/bin/python (numpy 2.x, scipy). Always run things with the environment variable PYTHONPATH={wt} so that your copy of the package is the one imported (check with: cd /tmp && PYTHONPATH={wt} /venv/bin/python -c "import quantarhei; print(quantarhei.__file__)").

PROPERTY ({pid}: {p['title']})
{p['statement']}
It must hold: {p['quantifier']['text']}
Files where the relevant mechanisms live: {", ".join(p['anchors']['files'])}

YOUR TASK
Make ONE small, realistic change to the source under {wt}/quantarhei (the kind of slip a maintainer could plausibly make in a refactoring, an optimisation, a bug fix that goes slightly wrong, or a feature patch - a few lines, possibly at two cooperating sites) such that this property is BROKEN, while:
 (a) the package still imports and runs, and
 (b) the existing unit tests still pass exactly as before. Run them like this (takes 2-15 minutes depending on machine load; run it ONCE at the end, or on the relevant test sub-directory while iterating):
       cd {wt} && find . -name __pycache__ -type d -prune -exec rm -rf {{}} + ; PYTHONPATH={wt} /venv/bin/python -m pytest -q -rfE -p no:cacheprovider --import-mode=importlib --timeout=900 --continue-on-collection-errors tests/unit 2>&1 | tail -15
     On the unchanged tree this gives: 147 passed, 5 failed, 1 error. The known failures are test_evolution (oqsstatevector), test_units_management (hamiltonian), the modified-Redfield tests (3) and a collection error in twod_test.py. Your change must give exactly the same result.
 (c) the breakage is NOT something ordinary use would expose at once: it should need something specific to manifest - an unusual but legitimate input, a non-default option, a particular combination of options, a multi-step sequence of operations on shared objects, nesting of contexts, or two sites that each look fine alone.

IMPORTANT - be different from the earlier attempts. Other engineers already produced changes for this property:
{hist}
   Do NOT repeat any of them. Choose a DIFFERENT clause of the property, a different function (preferably a different file from all of them) and a different kind of mechanism (for example: wrong index or sign in a formula, off-by-one in a slice or loop bound, a condition that is too wide or too narrow, an operation applied in the wrong order, a default that changed, a conversion applied twice or not at all, a state that is not reset, an early return that skips bookkeeping, an alias where a copy is needed, a value cached across calls, a wrong element type).

Then write a demonstration program {wt}/demo.py that checks the property directly on concrete inputs (through the public API of the package) and exits with status 0 when the property holds and with a non-zero status (and a short message) when it is violated. It must pass (exit 0) on the unchanged code and fail with your change. Verify both ways like this (do NOT use `git stash` - the stash is shared between worktrees):
   cd {wt} && git diff -- quantarhei > patch.diff && git checkout -- quantarhei && PYTHONPATH={wt} /venv/bin/python demo.py ; echo "exit(unchanged)=$?" ; git apply patch.diff && PYTHONPATH={wt} /venv/bin/python demo.py ; echo "exit(changed)=$?"

Finally make sure {wt}/patch.diff is current (`cd {wt} && git diff -- quantarhei > patch.diff`; source changes only; demo.py and patch.diff themselves must not be in the diff) and leave your change applied in the worktree.

Do not weaken or edit any test. Do not add new dependencies. Keep the change minimal. If your first idea turns a test red or does not break the property in a demonstrable way, try another idea. If, while building the demonstration, you notice that the UNCHANGED code already violates some clause of the property (a crash on a legitimate option, an inconsistency, a wrong number), mention it at the end of your report with the smallest input that shows it - but do not use it as your change.

REPORT (your final message): (1) the change (file, function, what and why it looks plausible); (2) why it breaks the property and exactly what is needed for the breakage to manifest (one sentence that could be used as documentation); (3) the output of demo.py on unchanged and on changed code; (4) the last lines of the unit-test run with your change; (5) anything the unchanged code already gets wrong.'''
        open(os.path.join(outdir, "prompt_%s.txt" % pid), "w").write(text)
    print("wrote prompts for round %d to %s" % (rnd, outdir))


if __name__ == "__main__":
    main()
