#!/venv/bin/python
"""Run every property's quick check on an alpha-renamed scratch copy of the package (all local
variables of all functions of the files the check consults get a suffix).  A finding here is a
false alarm of the checker: the renamed package behaves identically.

usage: tools/alpha_twins.py [Cxx ...]
"""
import concurrent.futures
import contextlib
import importlib
import io
import os
import shutil
import sys
import tempfile

sys.path.insert(0, "/verif")
os.environ["QV_NO_EVIDENCE"] = "1"
from qv import REPO                      # noqa: E402
from qv.loader import Program            # noqa: E402
from qv.report import Run                # noqa: E402
from qv import alpha, selftest           # noqa: E402


def one(pid):
    buf = io.StringIO()
    with contextlib.redirect_stdout(buf), contextlib.redirect_stderr(buf):
        prog = Program(REPO)
        run = Run(pid, "quick", 0)
        run.only = None
        mod = importlib.import_module("qv.rules.%s" % pid.lower())
        mod.check(run, prog, "quick")
        rc0 = run.finish(prog)
    files = sorted(prog.consulted)
    tmp = tempfile.mkdtemp(prefix="qvalpha_")
    try:
        selftest._copy_pkg(tmp)
        nf = nn = 0
        for rel in files:
            path = os.path.join(tmp, rel)
            if not os.path.exists(path):
                continue
            src = open(path, encoding="utf-8", errors="replace").read()
            try:
                new, a, b = alpha.rename_source(src)
            except SyntaxError as e:
                return pid, "rename-failed %s %s" % (rel, e), ""
            nf += a
            nn += b
            open(path, "w", encoding="utf-8").write(new)
        from qv.main import run_property
        buf = io.StringIO()
        with contextlib.redirect_stdout(buf), contextlib.redirect_stderr(buf):
            rc = run_property(pid, "quick", repo=tmp)
        out = buf.getvalue()
        bad = [l for l in out.splitlines() if l.startswith(("FINDING", "ANALYSIS-ERROR"))]
        return pid, "rc0=%d rc=%d files=%d functions=%d identifiers=%d" % (rc0, rc, len(files), nf, nn), "\n".join(b[:260] for b in bad[:12])
    finally:
        shutil.rmtree(tmp, ignore_errors=True)


if __name__ == "__main__":
    pids = sys.argv[1:] or ["C%02d" % i for i in range(1, 21)]
    with concurrent.futures.ProcessPoolExecutor(max_workers=6) as ex:
        for pid, summary, bad in ex.map(one, pids):
            print("==", pid, summary)
            if bad:
                print(bad)
