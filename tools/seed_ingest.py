#!/venv/bin/python
"""Confirm a seeded change in its scratch worktree and file it under /verif/seeded/<id>/.

usage: seed_ingest.py <worktree> <seed id> <property> "<what it needs to manifest>"
Steps (all in the scratch worktree, never in /repo):
  1. the source diff is taken from the worktree (quantarhei/ only);
  2. demo.py must exit 0 on the unchanged source and non-zero with the change;
  3. the pinned unit tests must give the baseline result with the change;
  4. every quick check of /verif is run against the changed tree (QV_REPO) and the
     properties/rules that fire are recorded.
"""
import json
import os
import re
import shutil
import subprocess
import sys

wt, sid, prop, needs = sys.argv[1:5]
run_tests = "--no-tests" not in sys.argv
env = dict(os.environ, PYTHONPATH=wt)


def sh(cmd, **kw):
    return subprocess.run(cmd, shell=True, cwd=wt, env=env, capture_output=True, text=True, **kw)


diff = sh("git diff -- quantarhei").stdout
if not diff.strip():
    sys.exit("no source change in %s" % wt)
files = re.findall(r"^diff --git a/(\S+)", diff, re.M)
open("/tmp/_seed_%s.diff" % sid, "w").write(diff)
sh("find . -name __pycache__ -type d -prune -exec rm -rf {} +")
sh("git checkout -- quantarhei")
clean = sh("/venv/bin/python demo.py", timeout=1800)
r = sh("git apply /tmp/_seed_%s.diff" % sid)
if r.returncode != 0:
    sys.exit("cannot re-apply the change: " + r.stderr)
sh("find . -name __pycache__ -type d -prune -exec rm -rf {} +")
changed = sh("/venv/bin/python demo.py", timeout=1800)
print("demo: clean rc=%d, changed rc=%d" % (clean.returncode, changed.returncode))
tests = None
if run_tests:
    t = sh("/venv/bin/python -m pytest -q -rfE -p no:cacheprovider --import-mode=importlib --timeout=900 "
           "--continue-on-collection-errors tests/unit 2>&1 | tail -12", timeout=7200)
    tests = t.stdout.strip().splitlines()[-1] if t.stdout.strip() else "?"
    not_passing = sorted(re.findall(r"^(?:FAILED|ERROR) (\S+)", t.stdout, re.M))
    print("tests:", tests, not_passing)
fired = {}
for i in range(1, 21):
    pid = "C%02d" % i
    c = subprocess.run(["/venv/bin/python", "-W", "ignore", "-B", "-m", "qv.main", pid, "--tier", "quick"],
                       cwd="/verif", env=dict(os.environ, QV_REPO=wt, QV_NO_EVIDENCE="1"),
                       capture_output=True, text=True)
    if c.returncode != 0:
        rules = sorted(set(re.findall(r"^FINDING rule=(\S+)", c.stdout, re.M)))
        fired[pid] = {"rc": c.returncode, "rules": rules,
                      "first": (re.findall(r"^(?:FINDING|ANALYSIS-ERROR).*", c.stdout, re.M) or [""])[0][:300]}
print("checks that fire:", json.dumps(fired, indent=1))
ok_demo = clean.returncode == 0 and changed.returncode != 0
BASE_NOT_PASSING = sorted([
    "tests/unit/qm/hilbertspace/oqsstatevector_test.py::TestOQSStateVector::test_evolution",
    "tests/unit/qm/hilbertspace/test_hamiltonian.py::TestHamiltonian::test_units_management",
    "tests/unit/qm/liouvillespace/rates/test_modifiedredfieldratematrix.py::TestModifiedRedfieldRateMatrix::test_create_ModifiedRedfieldRateMatrix",
    "tests/unit/qm/liouvillespace/test_modredfield.py::TestModRedfield::test_comparison_of_rates",
    "tests/unit/qm/liouvillespace/test_modredfield.py::TestModRedfield::test_propagation_in_different_basis",
    "tests/unit/spectroscopy/twod_test.py",
])
ok_tests = (tests is None) or ("147 passed" in tests and not_passing == BASE_NOT_PASSING)
d = os.path.join("/verif/seeded", sid)
os.makedirs(d, exist_ok=True)
shutil.copyfile("/tmp/_seed_%s.diff" % sid, os.path.join(d, "patch.diff"))
shutil.copyfile(os.path.join(wt, "demo.py"), os.path.join(d, "demo.py"))
meta = {
    "id": sid, "property": prop, "files": files, "needs_to_manifest": needs,
    "confirmed": {"demo_on_unchanged_rc": clean.returncode, "demo_with_change_rc": changed.returncode,
                  "demo_with_change_output": (changed.stdout + changed.stderr)[-600:],
                  "unit_tests_with_change": tests,
                  "unit_tests_not_passing_same_as_unchanged_tree": (not_passing == BASE_NOT_PASSING) if run_tests else None,
                  "how": "in scratch worktree %s: git checkout -- quantarhei; demo.py; git apply patch.diff; demo.py; "
                         "pytest tests/unit (baseline: 147 passed, 5 failed, 1 error)" % wt},
    "kept": bool(ok_demo and ok_tests),
    "checks_that_fire": fired,
    "caught_by_own_property": prop in fired and fired[prop]["rc"] == 1,
}
json.dump(meta, open(os.path.join(d, "meta.json"), "w"), indent=1)
print("kept=%s caught=%s" % (meta["kept"], meta["caught_by_own_property"]))
