#!/venv/bin/python
"""Re-evaluate every filed seeded change against the current checks and the current /repo HEAD.

For each /verif/seeded/<id>/patch.diff: a scratch worktree of /repo at HEAD is created outside
/repo and /verif, the patch is applied there (never in /repo), all twenty quick checks are run on it
through QV_REPO, meta.json gets "checks_that_fire" / "caught_by_own_property" / "rechecked_at", and
the worktree is removed.  usage: tools/seed_recheck.py [seed-id ...]
"""
import concurrent.futures
import glob
import json
import os
import re
import subprocess
import sys
import tempfile


def sh(cmd, cwd=None, env=None):
    return subprocess.run(cmd, shell=True, cwd=cwd, env=env, capture_output=True, text=True)


HEAD = sh("git -C /repo rev-parse --short HEAD").stdout.strip()


def one(d):
    sid = os.path.basename(d)
    meta = json.load(open(os.path.join(d, "meta.json")))
    wt = tempfile.mkdtemp(prefix="qvseed_")
    os.rmdir(wt)
    try:
        r = sh("git -C /repo worktree add --detach %s HEAD -q" % wt)
        if r.returncode != 0:
            return sid, "worktree failed: " + r.stderr[:200]
        r = sh("git apply %s" % os.path.join(d, "patch.diff"), cwd=wt)
        if r.returncode != 0:
            meta["rechecked_at"] = HEAD
            meta["applies_at_head"] = False
            meta["note_head"] = "patch no longer applies at %s: %s" % (HEAD, r.stderr.strip().splitlines()[-1][:160])
            json.dump(meta, open(os.path.join(d, "meta.json"), "w"), indent=1)
            return sid, "does not apply"
        fired = {}
        for i in range(1, 21):
            pid = "C%02d" % i
            c = subprocess.run(["/venv/bin/python", "-W", "ignore", "-B", "-m", "qv.main", pid, "--tier", "quick"],
                               cwd="/verif", env=dict(os.environ, QV_REPO=wt, QV_NO_EVIDENCE="1"),
                               capture_output=True, text=True)
            if c.returncode != 0:
                rules = sorted(set(re.findall(r"^FINDING rule=(\S+)", c.stdout, re.M)))
                fired[pid] = {"rc": c.returncode, "rules": rules,
                              "first": (re.findall(r"^(?:FINDING|ANALYSIS-ERROR).*", c.stdout, re.M) or [""])[0][:300]}
        meta["checks_that_fire"] = fired
        meta["caught_by_own_property"] = meta["property"] in fired and fired[meta["property"]]["rc"] == 1
        meta["rechecked_at"] = HEAD
        meta["applies_at_head"] = True
        json.dump(meta, open(os.path.join(d, "meta.json"), "w"), indent=1)
        return sid, "%s %s" % ("caught" if meta["caught_by_own_property"] else "MISSED",
                               {k: v["rules"] or "exit %d" % v["rc"] for k, v in fired.items()})
    finally:
        sh("git -C /repo worktree remove --force %s" % wt)


if __name__ == "__main__":
    dirs = sorted(glob.glob("/verif/seeded/*/"))
    dirs = [d.rstrip("/") for d in dirs if not sys.argv[1:] or os.path.basename(d.rstrip("/")) in sys.argv[1:]]
    with concurrent.futures.ThreadPoolExecutor(max_workers=8) as ex:
        for sid, res in ex.map(one, dirs):
            print(sid, res)
    sh("git -C /repo worktree prune")
