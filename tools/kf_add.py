#!/venv/bin/python
"""Add an entry to known_findings.json (never called by a check).
   usage: kf_add.py fixed <property> <rule> <commit> <what>
          kf_add.py open  <property> <rule> <construct>::<key> <what>"""
import json, sys
p = "/verif/known_findings.json"
k = json.load(open(p))
kind, prop, rule, x, what = sys.argv[1:6]
if kind == "fixed":
    e = {"property": prop, "rule": rule, "status": "fixed", "commit": x, "what": what,
         "line": "fixed: property=%s %s %s" % (prop, x, what)}
else:
    construct, key = x.split("::", 1)
    e = {"property": prop, "rule": rule, "construct": construct, "key": key, "status": "open", "what": what}
k["findings"].append(e)
json.dump(k, open(p, "w"), indent=1)
print("added", kind, prop, rule, x)
