#!/bin/bash
# run all 20 quick checks without writing evidence; print one line per property
cd /verif
for i in 01 02 03 04 05 06 07 08 09 10 11 12 13 14 15 16 17 18 19 20; do
  ( QV_NO_EVIDENCE=1 ./check C$i > /tmp/aq_C$i.txt 2>&1; echo "C$i rc=$? $(grep -c '^FINDING' /tmp/aq_C$i.txt) findings $(grep -c '^KNOWN-FINDING' /tmp/aq_C$i.txt) known $(grep '^ANALYSIS' /tmp/aq_C$i.txt | cut -c1-150)" ) &
done
wait
