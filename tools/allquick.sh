#!/bin/bash
# run all 20 quick checks without writing evidence; one line per property, then the list of checks whose exit is not 0
cd /verif
rm -f /tmp/aq_rc.txt
for i in 01 02 03 04 05 06 07 08 09 10 11 12 13 14 15 16 17 18 19 20; do
  ( QV_NO_EVIDENCE=1 ./check C$i > /tmp/aq_C$i.txt 2>&1; rc=$?; echo "C$i rc=$rc $(grep -c '^FINDING' /tmp/aq_C$i.txt) findings $(grep -c '^KNOWN-FINDING' /tmp/aq_C$i.txt) known $(grep '^ANALYSIS' /tmp/aq_C$i.txt | cut -c1-150)"; [ $rc -ne 0 ] && echo "C$i" >> /tmp/aq_rc.txt ) &
done
wait
if [ -s /tmp/aq_rc.txt ]; then echo "NONZERO-EXIT: $(sort /tmp/aq_rc.txt | tr '\n' ' ')"; else echo "ALL-EXIT-0"; fi
