#!/venv/bin/python
"""Collect the reports and scripts of the round-5 (defect hunt) agents into notes/round5/<Cxx>/."""
import json, glob, os, re, shutil
SUB = "/root/.claude/projects/-verif/bc00cc2d-6a4d-458f-b708-cc0fed8f978f/subagents"
for f in sorted(glob.glob(SUB + "/agent-*.jsonl")):
    lines = [json.loads(l) for l in open(f) if l.strip()]
    first = json.dumps(lines[0])[:6000]
    m = re.search(r"/tmp/r5/prompt_(C\d\d)", first)
    if not m:
        continue
    pid = m.group(1)
    texts = []
    for l in lines:
        msg = l.get("message") or {}
        if msg.get("role") == "assistant":
            for c in msg.get("content") or []:
                if isinstance(c, dict) and c.get("type") == "text" and len(c["text"]) > 1500:
                    texts.append(c["text"])
    if not texts:
        continue
    d = "/verif/notes/round5/%s" % pid
    os.makedirs(d, exist_ok=True)
    open(d + "/report.md", "w").write(texts[-1])
    for s in glob.glob("/tmp/w5_%s/finding_*.py" % pid):
        shutil.copy(s, d)
    print(pid, len(texts[-1]), len(glob.glob(d + "/finding_*.py")))
