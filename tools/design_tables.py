#!/venv/bin/python
"""Regenerates the machine-written tables of DESIGN.md (between the AUTO markers) from the committed
evidence files, the self-test case lists and /verif/seeded/*/meta.json."""
import glob
import importlib
import json
import re
import sys

sys.path.insert(0, "/verif")


def numbers():
    rows = ["| id | rules | obligations (quick tier) | mutants | twins |", "|---|---|---|---|---|"]
    for i in range(1, 21):
        pid = "C%02d" % i
        ev = json.load(open("/verif/evidence/%s.json" % pid))
        rules = ev["coverage"]["rules"]
        obl = sum(r["obligations"] for r in rules.values())
        mod = importlib.import_module("qv.selfcases.%s" % pid.lower())
        k = sum(1 for c in mod.CASES if c["kind"] == "mutant")
        t = sum(1 for c in mod.CASES if c["kind"] == "twin")
        rows.append("| %s | %s | %d | %d | %d (+1 all-locals-renamed) |" % (
            pid, ", ".join("%s %d" % (r.split("-")[1], rules[r]["obligations"]) for r in sorted(rules)), obl, k, t))
    return "\n".join(rows)


def seeds():
    rows = ["| seed | file(s) changed | needs, to manifest | checks that fire now | own property when first evaluated |",
            "|---|---|---|---|---|"]
    for p in sorted(glob.glob("/verif/seeded/*/meta.json")):
        m = json.load(open(p))
        fire = "; ".join("%s (%s)" % (k, ", ".join(v["rules"]) or "exit %d" % v["rc"]) for k, v in sorted(m["checks_that_fire"].items()))
        first = m.get("caught_by_own_property_when_first_evaluated")
        rows.append("| %s | %s | %s | %s | %s |" % (
            m["id"], ", ".join(f.replace("quantarhei/", "") for f in m["files"]), m["needs_to_manifest"], fire or "**none**",
            {True: "caught", False: "missed - " + m.get("history", ""), None: "n/a"}[first] if first is not True
            else "caught"))
    return "\n".join(rows)


def r5fixed():
    k = json.load(open("/verif/known_findings.json"))["findings"]
    start = [i for i, e in enumerate(k) if e.get("commit") == "6cfede2"][0]
    rows = ["| commit | rule | what failed (reproduction) |", "|---|---|---|"]
    for e in k[start:]:
        if e["status"] == "fixed":
            rows.append("| %s | %s | %s |" % (e["commit"], e["rule"], e["what"].replace("|", "\\|")))
    return "\n".join(rows)


def openfindings():
    k = json.load(open("/verif/known_findings.json"))["findings"]
    rows = ["| rule | construct | key | what fails, why not repaired |", "|---|---|---|---|"]
    for e in k:
        if e["status"] == "open":
            rows.append("| %s | `%s` | %s | %s |" % (e["rule"], e["construct"], e["key"].replace("|", "\\|")[:60], e["what"].replace("|", "\\|")))
    return "\n".join(rows)


def main():
    s = open("/verif/DESIGN.md").read()
    for name, fn in (("NUMBERS", numbers), ("SEEDS", seeds), ("R5FIXED", r5fixed), ("OPEN", openfindings)):
        a, b = "<!-- AUTO:%s -->" % name, "<!-- /AUTO:%s -->" % name
        if a in s:
            s = re.sub(re.escape(a) + r".*?" + re.escape(b), lambda m_: a + "\n" + fn() + "\n" + b, s, flags=re.S)
    open("/verif/DESIGN.md", "w").write(s)


if __name__ == "__main__":
    main()
